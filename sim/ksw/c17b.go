package ksw

import (
	"bytes"
	"context"
	"fmt"
	"sync"
	"testing"
	"time"

	"github.com/cossacklabs/acra/keystore"
	ksfs "github.com/cossacklabs/acra/keystore/filesystem"

	"verif/sim/kernel"
	"verif/sim/simfs"
)

// Part (b) of C17: one keystore v1 handle shared by several goroutines (the
// connections of one AcraServer) reading keys of several clients through a
// tiny cache (constant eviction) while another goroutine rotates keys. The
// scheduler interleaves them at every Storage call, every key-encryptor call
// and every acquisition of the keystore lock (overlay-instrumented, DESIGN.md
// §2.3). Every key handed out must be a complete key that was generated for
// that owner, and must still be intact when the caller is done with it.

const (
	c17bPriv  = "r-priv"
	c17bPub   = "r-pub"
	c17bSym   = "r-sym"
	c17bSyms  = "r-syms"
	c17bPrivs = "r-privs"
	c17bGenP  = "w-genpair"
	c17bGenS  = "w-gensym"
	c17bReset = "w-reset"
)

// yieldEncryptor makes every master-key crypto call a seam.
type yieldEncryptor struct {
	inner keystore.KeyEncryptor
	w     *kernel.World
}

func (y yieldEncryptor) Encrypt(ctx context.Context, key []byte, kc keystore.KeyContext) ([]byte, error) {
	y.w.Seam(y.w.Cur, "enc.Encrypt", kc.String())
	return y.inner.Encrypt(ctx, key, kc)
}

func (y yieldEncryptor) Decrypt(ctx context.Context, key []byte, kc keystore.KeyContext) ([]byte, error) {
	y.w.Seam(y.w.Cur, "enc.Decrypt", kc.String())
	return y.inner.Decrypt(ctx, key, kc)
}

func exploreC17b(x *kernel.Explorer, r *kernel.RNG, seed uint64) {
	nread := 2 + r.Intn(4)
	nclients := 2 + r.Intn(2)
	plan := &kernel.Plan{Prop: "C17", Seed: seed, Swarm: map[string]int64{
		"part": 2, "procs": int64(nread + 1), "clients": int64(nclients), "cache": int64(1 + r.Intn(2))}}
	id := 0
	per := 3 + r.Intn(5)
	for p := 0; p < nread; p++ {
		for j := 0; j < per; j++ {
			id++
			plan.Ops = append(plan.Ops, kernel.Op{ID: id, Proc: p, Kind: r.Pick(c17bPriv, c17bPub, c17bPub, c17bSym, c17bSyms, c17bPrivs),
				A: []int64{int64(r.Intn(nclients)), int64(1 + r.Intn(3))}})
		}
	}
	for j := 0; j < 2+r.Intn(4); j++ {
		id++
		plan.Ops = append(plan.Ops, kernel.Op{ID: id, Proc: nread, Kind: r.Pick(c17bGenP, c17bGenS, c17bGenP, c17bGenS, c17bReset),
			A: []int64{int64(r.Intn(nclients)), 0}})
	}
	x.Exec(plan)
}

type c17bVersion struct {
	val    KeyVal
	invoke int
}

type c17bRead struct {
	invoke   int
	all      bool
	op       kernel.Op
	client   string
	ret      int
	vals     [][]byte // copies taken at return
	held     [][]byte // the slices as handed out
	isPublic bool
	sym      bool
}

func runC17b(t *testing.T, plan *kernel.Plan, keepLog bool) *kernel.Result {
	w := kernel.NewWorld(plan, keepLog)
	w.MaxSteps = 8000
	bubble(t, plan.Seed, func() {
		start := time.Now()
		rng := kernel.NewRNG(plan.Seed, 0xb17c)
		disk := NewDisk(1, rng)
		nproc := max(2, int(plan.Sw("procs")))
		nclients := max(1, min(3, int(plan.Sw("clients"))))
		clients := clientPool[:nclients]
		enc, err := keystore.NewSCellKeyEncryptor(disk.Master)
		if err != nil {
			panic(err)
		}
		ks, err := ksfs.NewCustomFilesystemKeyStore().KeyDirectory(Root).Encryptor(yieldEncryptor{enc, w}).
			Storage(&simfs.FaultFS{FS: disk.FS, W: w, Shared: true}).CacheSize(int(plan.Sw("cache"))).Build()
		if err != nil {
			w.Violate("C17", "open-succeeds", "v1", err.Error())
			return
		}
		ksfs.SimLockHook = func(l *sync.RWMutex) {
			w.Yield(w.Cur, "v1.store.lock")
			for !l.TryLock() {
				w.Block(w.Cur, "v1.store.lock")
			}
		}
		ksfs.SimUnlockHook = func() { w.Progress() }
		defer func() { ksfs.SimLockHook, ksfs.SimUnlockHook = nil, nil }()
		scratch := kernel.NewWorld(&kernel.Plan{}, false)
		scratch.MaxSteps = 1 << 60
		obs, err := Open(scratch, 0, disk, -1)
		if err != nil {
			panic(err)
		}
		pairV := map[string][]c17bVersion{}
		symV := map[string][]c17bVersion{}
		learn := func(client string, pair bool, invoke int) {
			kind := KStorageSym
			if pair {
				kind = KStoragePair
			}
			v, err := obs.ReadCurrent(kind, []byte(client))
			if err != nil {
				w.Violate("C17", "generated-key-readable", "v1", err.Error())
				return
			}
			if pair {
				pairV[client] = append(pairV[client], c17bVersion{v, invoke})
			} else {
				symV[client] = append(symV[client], c17bVersion{v, invoke})
			}
		}
		for _, c := range clients {
			if err := ks.GenerateDataEncryptionKeys([]byte(c)); err != nil {
				w.Violate("C17", "generate-succeeds", "v1/setup", err.Error())
				return
			}
			learn(c, true, 0)
			time.Sleep(time.Second)
			if err := ks.GenerateClientIDSymmetricKey([]byte(c)); err != nil {
				w.Violate("C17", "generate-succeeds", "v1/setup", err.Error())
				return
			}
			learn(c, false, 0)
			time.Sleep(time.Second)
		}
		var reads []*c17bRead
		type span struct {
			from, to int
			client   string
			sym      bool
			reset    bool
		}
		var writes []span
		finished := make([]bool, nproc)
		bodies := make([]func(int), nproc)
		for p := 0; p < nproc; p++ {
			bodies[p] = func(proc int) {
				var pending *c17bRead
				settle := func() {
					if pending == nil {
						return
					}
					for i := range pending.held {
						if !bytes.Equal(pending.held[i], pending.vals[i]) {
							which := "private-or-symmetric"
							if pending.isPublic {
								which = "public"
							}
							w.Violate("C17", "returned-key-intact", "v1/"+which, fmt.Sprintf("key handed out by %s for %s changed under the caller: %x -> %x", pending.op.Kind, pending.client, pending.vals[i][:8], pending.held[i][:8]))
						}
					}
					pending = nil
				}
				for _, op := range plan.Ops {
					if op.Proc != proc {
						continue
					}
					client := clients[int(op.Arg(0, 0))%len(clients)]
					cid := []byte(client)
					w.BeginOp(proc, op)
					invoke := w.Res.Steps
					var held [][]byte
					var isPub, isSym bool
					err, pv := Guard(func() error {
						switch op.Kind {
						case c17bPriv:
							k, e := ks.GetServerDecryptionPrivateKey(cid)
							if e == nil {
								held = [][]byte{k.Value}
							}
							return e
						case c17bPub:
							isPub = true
							k, e := ks.GetClientIDEncryptionPublicKey(cid)
							if e == nil {
								held = [][]byte{k.Value}
							}
							return e
						case c17bSym:
							isSym = true
							k, e := ks.GetClientIDSymmetricKey(cid)
							if e == nil {
								held = [][]byte{k}
							}
							return e
						case c17bSyms:
							isSym = true
							ks2, e := ks.GetClientIDSymmetricKeys(cid)
							held = ks2
							return e
						case c17bPrivs:
							ks2, e := ks.GetServerDecryptionPrivateKeys(cid)
							for _, k := range ks2 {
								held = append(held, k.Value)
							}
							return e
						case c17bGenP:
							time.Sleep(time.Second)
							e := ks.GenerateDataEncryptionKeys(cid)
							if e == nil {
								learn(client, true, invoke)
							}
							return e
						case c17bGenS:
							time.Sleep(time.Second)
							e := ks.GenerateClientIDSymmetricKey(cid)
							if e == nil {
								learn(client, false, invoke)
							}
							return e
						case c17bReset:
							ks.Reset()
							return nil
						}
						return nil
					})
					if pv != nil {
						w.Violate("C17", "no-panic", "v1/"+op.Kind, fmt.Sprint(pv))
					} else if err != nil {
						w.Violate("C17", "shared-handle-call-succeeds", "v1/"+op.Kind, fmt.Sprintf("%s for %s: %v", op.Kind, client, err))
					}
					w.EndOp(proc, fmt.Sprintf("err=%v n=%d", err, len(held)))
					switch op.Kind {
					case c17bGenP, c17bGenS, c17bReset:
						writes = append(writes, span{invoke, w.Res.Steps, client, op.Kind == c17bGenS, op.Kind == c17bReset})
					}
					settle()
					if len(held) > 0 {
						rd := &c17bRead{invoke: invoke, all: op.Kind == c17bSyms || op.Kind == c17bPrivs, op: op, client: client, ret: w.Res.Steps, held: held, isPublic: isPub, sym: isSym}
						for _, h := range held {
							rd.vals = append(rd.vals, cp(h))
						}
						reads = append(reads, rd)
						pending = rd
						// the caller keeps using the key for a little while
						for i := int64(0); i < op.Arg(1, 1); i++ {
							w.Yield(proc, "hold-key")
							w.Event(proc, "hold-key", "")
						}
					}
				}
				settle()
				finished[proc] = true
			}
		}
		w.RunProcs(bodies)
		if w.Deadlock {
			w.Violate("C17", "no-deadlock", "v1", "all goroutines blocked on the keystore lock")
		} else if !w.Res.Cut {
			for p, f := range finished {
				if !f {
					w.Violate("C17", "all-processes-finish", "v1", fmt.Sprintf("goroutine %d did not finish", p))
				}
			}
		}
		// every key handed out is a complete key generated for that owner
		// before the call returned
		for _, rd := range reads {
			vs := pairV[rd.client]
			if rd.sym {
				vs = symV[rd.client]
			}
			for _, v := range rd.vals {
				ok := false
				for _, ver := range vs {
					cand := ver.val.Secret
					if rd.isPublic {
						cand = ver.val.Public
					}
					if bytes.Equal(cand, v) && ver.invoke <= rd.ret {
						ok = true
					}
				}
				if !ok {
					w.Violate("C17", "returned-key-is-a-generated-key", "v1/"+rd.op.Kind, fmt.Sprintf("%s for %s returned %x.. which is no key generated for that owner", rd.op.Kind, rd.client, v[:min(8, len(v))]))
				}
			}
		}
		// a key that one "all keys" read of the shared handle offered is still
		// offered by every later one (nothing is destroyed in this workload),
		// unless the cache was reset in between. Reads that overlap a rotation
		// of the same key are not compared: they are not atomic with it.
		overlaps := func(rd *c17bRead) bool {
			for _, sp := range writes {
				if !sp.reset && sp.client == rd.client && sp.sym == rd.sym && sp.from <= rd.ret && rd.invoke <= sp.to {
					return true
				}
			}
			return false
		}
		resetBetween := func(a, b *c17bRead) bool {
			for _, sp := range writes {
				if sp.reset && sp.to >= a.invoke && sp.from <= b.ret {
					return true
				}
			}
			return false
		}
		for i, later := range reads {
			if !later.all || overlaps(later) {
				continue
			}
			for _, earlier := range reads[:i] {
				if !earlier.all || earlier.client != later.client || earlier.sym != later.sym || earlier.ret > later.invoke || overlaps(earlier) || resetBetween(earlier, later) {
					continue
				}
				for _, v := range earlier.vals {
					if !contains(later.vals, v) {
						w.Violate("C17", "shared-handle-keeps-offering", "v1/"+later.op.Kind, fmt.Sprintf("%s for %s offered %x.. at step %d but not any more at step %d (no destruction, no cache reset in between)", later.op.Kind, later.client, v[:6], earlier.ret, later.ret))
					}
				}
			}
		}
		w.State(fmt.Sprintf("reads=%d", len(reads)))
		w.Res.SimNanos = int64(time.Since(start))
		w.Res.Trivial = len(plan.Ops) < 4
	})
	return w.Finish()
}
