package ksw

import (
	"bytes"
	"encoding/json"
	"errors"
	"fmt"
	"sort"
	"strconv"
	"strings"
	"testing"
	"time"

	"github.com/cossacklabs/acra/logging"
	log "github.com/sirupsen/logrus"

	"verif/sim/kernel"
)

// C20 — the audit-log chain verifies when intact and fails when altered.
//
// Entries with adversarial messages, field names and values are written
// through the real AcraCryptoFormatter + integrity hooks + AuditLogHandler
// into a simulated log file, with graceful chain restarts at drawn points.
// Then the file at rest is damaged (storage faults: edit, delete, swap,
// duplicate, other key) and the real verifier runs over every damaged copy.
type C20 struct{}

func (C20) ID() string { return "C20" }

var c20Messages = []string{
	"client connected", "query executed", "", " ", "x",
	"tricky integrity=00ff00 suffix", "ends with integrity=", " integrity=deadbeef", "chain=new", "chain=end", "a chain=new",
	"End of current audit log chain", "end of current audit log chain", "End of current audit log chain chain=end",
	"line\nbreak", "carriage\rreturn", "tab\there", "quote\"inside", "back\\slash", "pipe|in|msg", "equals=sign key=value",
	"\x01err:multi\nline database error", "\x01err:plain error", "\x01int:9007199254740993", "\x01int:-42", "\x01int:1790000000123456789", "\x01flt:3.25", "\x01bool:true",
	"unicode ✓ ключ 鍵", "nul\x00byte", "bad utf8 \xff\xfe", "{\"json\":\"inside\"}", "CEF:0|fake|header|1|100|x|1|",
	"msg=\"fake\" level=info", "trailing space ", "  leading", "very " + strings.Repeat("long ", 60),
}

var c20FieldNames = []string{
	"client_id", "session", "code", "integrity", "chain", "msg", "level", "time", "timestamp", "unixTime", "product", "version",
	"key with space", "key=eq", "key|pipe", "delimiter", "a", "error",
}

var c20Formats = []string{logging.PlaintextFormatString, logging.JSONFormatString, logging.CefFormatString}

func (C20) Explore(x *kernel.Explorer, seed uint64) {
	r := kernel.NewRNG(seed, 0xc20)
	for i := 0; i < 6 && !x.Expired(); i++ {
		plan := &kernel.Plan{Prop: "C20", Seed: kernel.Mix(seed, uint64(i)), Swarm: map[string]int64{
			"format": int64(r.Intn(3)), "wiring": int64(r.Intn(2)), "adversarial": int64(r.Intn(3))}}
		n := 2 + r.Intn(12)
		for j := 0; j < n; j++ {
			op := kernel.Op{ID: j + 1, Kind: "log", A: []int64{int64(r.Intn(4)), int64(1 + r.Intn(5000))}}
			if r.Chance(1, 7) && j > 0 {
				op.Kind = "restart"
			} else {
				adv := plan.Sw("adversarial")
				pick := func(pool []string, benign int) string {
					if adv == 0 {
						return pool[r.Intn(benign)]
					}
					return pool[r.Intn(len(pool))]
				}
				op.S = []string{pick(c20Messages, 2)}
				nf := r.Intn(3)
				for k := 0; k < nf; k++ {
					op.S = append(op.S, pick(c20FieldNames, 3), pick(c20Messages, 2))
				}
			}
			plan.Ops = append(plan.Ops, op)
		}
		x.Exec(plan)
	}
}

// c20Cause names what is unusual about the content of a plan's entries, for
// the site signature of content-dependent findings.
func c20Cause(plan *kernel.Plan) string {
	var fieldChain, fieldIntegrity, tokIntegrity, endMsg, adversarial bool
	for _, op := range plan.Ops {
		for k, sv := range op.S {
			isName := k >= 1 && k%2 == 1
			if isName && sv == "chain" {
				fieldChain = true
			}
			if isName && sv == "integrity" {
				fieldIntegrity = true
			}
			if !isName && strings.Contains(sv, " integrity=") {
				tokIntegrity = true
			}
			if !isName && strings.Contains(strings.ToLower(sv), strings.ToLower(logging.EndOfAuditLogChainMessage)) {
				endMsg = true
			}
		}
	}
	adversarial = plan.Sw("adversarial") != 0
	switch {
	case fieldChain:
		return "field-named-chain"
	case endMsg:
		return "content-has-end-marker-text"
	case fieldIntegrity:
		return "field-named-integrity"
	case tokIntegrity:
		return "content-has-integrity-token"
	case adversarial:
		return "adversarial-content"
	}
	return "benign-content"
}

// c20GenuineEnd tells whether line i is an end-of-chain entry written by the
// handler itself (as opposed to a caller's entry carrying the same text).
func c20GenuineEnd(plan *kernel.Plan, lines []string, i int) bool {
	for _, op := range plan.Ops {
		for _, sv := range op.S {
			if strings.Contains(strings.ToLower(sv), strings.ToLower(logging.EndOfAuditLogChainMessage)) {
				return false // cannot tell them apart by text; be conservative
			}
		}
	}
	return true
}

// c20FieldValue turns a pool entry into a field value; entries starting with
// \x01 stand for non-string values (errors, integers, floats, booleans).
func c20FieldValue(s string) interface{} {
	if !strings.HasPrefix(s, "\x01") {
		return s
	}
	kind, rest, _ := strings.Cut(s[1:], ":")
	switch kind {
	case "err":
		return errors.New(rest)
	case "int":
		n, _ := strconv.ParseInt(rest, 10, 64)
		return n
	case "flt":
		f, _ := strconv.ParseFloat(rest, 64)
		return f
	case "bool":
		return rest == "true"
	}
	return s
}

type c20Writer struct{ buf bytes.Buffer }

func (w *c20Writer) Write(p []byte) (int, error) { return w.buf.Write(p) }

func c20Verify(format string, key []byte, lines []string) (failLine int, err error) {
	parser, perr := logging.NewLogParser(format)
	if perr != nil {
		return -1, perr
	}
	verifier, verr := logging.NewIntegrityCheckVerifier(key, parser)
	if verr != nil {
		return -1, verr
	}
	ch := make(chan *logging.LogEntryInfo, len(lines)+1)
	for i, l := range lines {
		ch <- &logging.LogEntryInfo{RawLogEntry: l, LineNumber: i}
	}
	close(ch)
	entry, err := verifier.VerifyIntegrityCheck(&logging.LogEntrySource{Entries: ch})
	if entry != nil {
		return entry.LineNumber, err
	}
	return -1, err
}

func (C20) Run(t *testing.T, plan *kernel.Plan, keepLog bool) *kernel.Result {
	w := kernel.NewWorld(plan, keepLog)
	bubble(t, plan.Seed, func() {
		start := time.Now()
		rng := kernel.NewRNG(plan.Seed, 0xd20c)
		format := c20Formats[int(plan.Sw("format"))%3]
		key := rng.Bytes(32)
		// global logrus is what the audit log handler finalizes chains through
		std := log.StandardLogger()
		oldFmt, oldOut, oldLevel := std.Formatter, std.Out, std.Level
		defer func() { std.SetFormatter(oldFmt); std.SetOutput(oldOut); std.SetLevel(oldLevel) }()
		hooks, err := logging.NewHooks(append([]byte(nil), key...), format)
		if err != nil {
			panic(err)
		}
		formatter := logging.CreateCryptoFormatter(format)
		formatter.SetServiceName("acra-sim")
		formatter.SetHooks(hooks)
		file := &c20Writer{}
		handler, err := logging.NewAuditLogHandler(formatter, file)
		if err != nil {
			panic(err)
		}
		log.SetFormatter(handler)
		if plan.Sw("wiring") == 0 {
			log.SetOutput(handler) // as the repository's own tests wire it
		} else {
			log.SetOutput(file) // as acra-server / acra-translator wire it
		}
		log.SetLevel(log.InfoLevel)
		site := format
		_, _, pv := kernel.Protect(func() {
			for _, op := range plan.Ops {
				time.Sleep(time.Duration(op.Arg(1, 1)) * time.Millisecond)
				w.BeginOp(0, op)
				w.Event(0, fmt.Sprintf("entry/%s/%.12q/%d", op.Kind, op.Str(0), len(op.S)), "")
				switch op.Kind {
				case "restart":
					handler.ResetChain(append([]byte(nil), key...))
					w.Probe("chain-restart")
				default:
					fields := log.Fields{}
					for k := 1; k+1 < len(op.S); k += 2 {
						fields[op.S[k]] = c20FieldValue(op.S[k+1])
					}
					e := log.WithFields(fields)
					switch op.Arg(0, 0) {
					case 0, 1:
						e.Info(op.Str(0))
					case 2:
						e.Warn(op.Str(0))
					default:
						e.Error(op.Str(0))
					}
				}
				w.EndOp(0, "")
			}
			handler.FinalizeChain()
		})
		if pv != nil {
			w.Violate("C20", "no-panic", site+"/write", fmt.Sprint(pv))
			return
		}
		std.SetFormatter(oldFmt)
		std.SetOutput(oldOut)
		std.SetLevel(oldLevel)
		raw := file.buf.String()
		lines := strings.Split(strings.TrimRight(raw, "\n"), "\n")
		w.Res.Extra["log_lines"] += int64(len(lines))
		// --- the untouched log verifies with the same key
		var failAt int
		err, pv = Guard(func() error { var e error; failAt, e = c20Verify(format, key, lines); return e })
		if pv != nil {
			w.Violate("C20", "no-panic", site+"/verify", fmt.Sprint(pv))
			return
		}
		if err != nil {
			cause := c20Cause(plan)
			bad := ""
			if failAt >= 0 && failAt < len(lines) {
				bad = lines[failAt]
			}
			w.Violate("C20", "intact-log-verifies", site+"/"+cause+":"+slug(err), fmt.Sprintf("honest log of %d lines fails at line %d: %v: %.200q", len(lines), failAt, err, bad))
			return
		}
		w.Probe("intact-verified")
		// --- another key
		other := append([]byte(nil), key...)
		other[int(plan.Seed%32)] ^= 1
		if _, err := c20Verify(format, other, lines); err == nil {
			w.Violate("C20", "other-key-fails", site, "log verifies with a different key")
		}
		// which lines are protected entries, and chain membership
		parser, _ := logging.NewLogParser(format)
		protected := make([]bool, len(lines))
		chainOf := make([]int, len(lines))
		chain := 0
		for i, l := range lines {
			pe, err := parser.ParseEntry(l)
			if err == nil {
				protected[i] = true
				if pe.IsNewChain {
					chain++
				}
			}
			chainOf[i] = chain
		}
		endMarkerTag := ""
		expectFail := func(what string, altered []string, latest int) bool {
			w.Res.Extra["alterations"]++
			var at int
			err, pv := Guard(func() error { var e error; at, e = c20Verify(format, key, altered); return e })
			if pv != nil {
				w.Violate("C20", "no-panic", site+"/verify-altered", fmt.Sprintf("%s: %v", what, pv))
				return false
			}
			if err == nil {
				w.Violate("C20", "altered-log-fails", site+"/"+strings.Fields(what)[0]+endMarkerTag, fmt.Sprintf("%s: verification still succeeds", what))
				return false
			}
			if at > latest {
				w.Violate("C20", "altered-log-fails-in-time", site+"/"+strings.Fields(what)[0], fmt.Sprintf("%s: verification fails only at line %d, later than the next protected entry (%d)", what, at, latest))
				return false
			}
			return true
		}
		nextProtected := func(from int, ls []string) int {
			for j := from; j < len(ls); j++ {
				if _, err := parser.ParseEntry(ls[j]); err == nil {
					return j
				}
			}
			return -1
		}
		for i := range lines {
			if !protected[i] {
				continue
			}
			// edit one character of the authenticated part (keeping the entry a protected entry)
			pos := int(rng.Uint32()) % max(1, len(lines[i])/2)
			edited := []byte(lines[i])
			if edited[pos] == 'x' {
				edited[pos] = 'y'
			} else {
				edited[pos] = 'x'
			}
			alt := append(append(append([]string{}, lines[:i]...), string(edited)), lines[i+1:]...)
			if _, perr := parser.ParseEntry(string(edited)); perr == nil {
				if !expectFail(fmt.Sprintf("edit line %d col %d", i, pos), alt, i) {
					return
				}
			} else if np := nextProtected(i+1, alt); np >= 0 {
				if !expectFail(fmt.Sprintf("edit-unparse line %d col %d", i, pos), alt, np) {
					return
				}
			}
			// JSON entries: edits that keep the entry well-formed JSON but change what it says
			if format == logging.JSONFormatString {
				for _, ja := range c20JSONEdits(lines[i]) {
					if _, perr := parser.ParseEntry(ja.line); perr != nil {
						continue
					}
					alt = append(append(append([]string{}, lines[:i]...), ja.line), lines[i+1:]...)
					if !expectFail(fmt.Sprintf("%s line %d", ja.what, i), alt, i) {
						return
					}
				}
			}
			// delete an entry that is followed by another entry of its chain
			if i+1 < len(lines) && protected[i+1] && chainOf[i+1] == chainOf[i] {
				alt = append(append([]string{}, lines[:i]...), lines[i+1:]...)
				if !expectFail(fmt.Sprintf("delete line %d", i), alt, i) {
					return
				}
				// swap with the next entry
				alt = append([]string{}, lines...)
				alt[i], alt[i+1] = alt[i+1], alt[i]
				if !expectFail(fmt.Sprintf("swap lines %d,%d", i, i+1), alt, i) {
					return
				}
			}
			// duplicate
			alt = append(append(append([]string{}, lines[:i+1]...), lines[i]), lines[i+1:]...)
			if strings.Contains(strings.ToLower(lines[i]), strings.ToLower(logging.EndOfAuditLogChainMessage)) && !c20GenuineEnd(plan, lines, i) {
				endMarkerTag = ":entry-carries-end-marker-text"
			}
			ok := expectFail(fmt.Sprintf("duplicate line %d", i), alt, i+1)
			endMarkerTag = ""
			if !ok {
				return
			}
		}
		// swap entries standing at the same position of two different chains
		firstOf := map[int]int{}
		for i := range lines {
			if protected[i] {
				if _, ok := firstOf[chainOf[i]]; !ok {
					firstOf[chainOf[i]] = i
				}
			}
		}
		var chains []int
		for c := range firstOf {
			chains = append(chains, c)
		}
		sort.Ints(chains)
		for _, ca := range chains {
			for _, cb := range chains {
				if ca >= cb {
					continue
				}
				fa, fb := firstOf[ca], firstOf[cb]
				for off := 1; fa+off < len(lines) && fb+off < len(lines) && off <= 3; off++ {
					i, j := fa+off, fb+off
					if !protected[i] || !protected[j] || chainOf[i] != ca || chainOf[j] != cb || lines[i] == lines[j] {
						continue
					}
					alt := append([]string{}, lines...)
					alt[i], alt[j] = alt[j], alt[i]
					// "no later than at the next protected entry after the change": two chains that begin with
					// textually identical entries (same text, same second) have interchangeable second entries,
					// and the swap then shows at the entry after the first swapped one
					lo := min(i, j)
					latest := nextProtected(lo+1, alt)
					if latest < 0 {
						continue
					}
					if !expectFail(fmt.Sprintf("swap-across-chains lines %d,%d", i, j), alt, latest) {
						return
					}
				}
			}
		}
		w.State(fmt.Sprintf("%s lines=%d chains=%d", format, len(lines), chain))
		w.Res.SimNanos = int64(time.Since(start))
		w.Res.Trivial = len(lines) < 3
	})
	return w.Finish()
}

type c20JSONEdit struct{ what, line string }

// c20JSONEdits are alterations of one JSON log entry that leave it a well-formed entry with the same
// integrity tag: a value changes its type (3 <-> "3"), two fields are merged into one whose name swallows
// the first field's value, a field is hidden inside the value of its neighbour.
func c20JSONEdits(line string) []c20JSONEdit {
	var m map[string]json.RawMessage
	if err := json.Unmarshal([]byte(line), &m); err != nil {
		return nil
	}
	var keys []string
	for k := range m {
		if k != logging.IntegrityKey && k != logging.AuditLogChainKey {
			keys = append(keys, k)
		}
	}
	sort.Strings(keys)
	encode := func(mm map[string]json.RawMessage) string {
		b, err := json.Marshal(mm)
		if err != nil {
			return ""
		}
		return string(b)
	}
	clone := func() map[string]json.RawMessage {
		c := map[string]json.RawMessage{}
		for k, v := range m {
			c[k] = v
		}
		return c
	}
	var out []c20JSONEdit
	for _, k := range keys {
		v := string(m[k])
		var asNum json.Number
		var asStr string
		switch {
		case json.Unmarshal(m[k], &asStr) == nil:
			// a string that reads as a number becomes the number
			d := json.NewDecoder(strings.NewReader(asStr))
			d.UseNumber()
			if d.Decode(&asNum) == nil && asNum.String() == asStr && asStr != "" {
				c := clone()
				c[k] = json.RawMessage(asStr)
				out = append(out, c20JSONEdit{"json-string-to-number", encode(c)})
			}
		case len(v) > 0 && (v[0] == '-' || v[0] >= '0' && v[0] <= '9') || v == "true" || v == "false" || v == "null":
			c := clone()
			q, _ := json.Marshal(v)
			c[k] = q
			out = append(out, c20JSONEdit{"json-value-to-string", encode(c)})
		}
		if len(out) >= 2 {
			break
		}
	}
	// merge two neighbouring fields (in the order of names) into one field
	for i := 0; i+1 < len(keys); i++ {
		k1, k2 := keys[i], keys[i+1]
		c := clone()
		delete(c, k1)
		delete(c, k2)
		merged := k1 + logging.JSONKeyValueDelimiter + string(m[k1]) + logging.JSONKeyValueDelimiter + logging.JSONKeyValueDelimiter + k2
		c[merged] = m[k2]
		out = append(out, c20JSONEdit{"json-merge-fields", encode(c)})
		break
	}
	return out
}
