package ksw

import (
	"fmt"
	"testing"

	"verif/sim/kernel"
)

// C06 — rotation keeps old data readable; destruction removes exactly the
// chosen key. Fault-free histories on one handle, all formats and caches.
type C06 struct{}

func (C06) ID() string { return "C06" }

var cacheChoices = []int64{-1, 1, 2, 0} // off, 1, 2, unbounded

func (C06) Explore(x *kernel.Explorer, seed uint64) {
	r := kernel.NewRNG(seed, 0xc06)
	maxOps := 25
	if !x.Quick() {
		maxOps = 40
	}
	for i := 0; i < 4 && !x.Expired(); i++ {
		format := 1 + r.Intn(2)
		plan := &kernel.Plan{Prop: "C06", Seed: kernel.Mix(seed, uint64(i)), Swarm: map[string]int64{
			"format": int64(format), "cache": cacheChoices[r.Intn(len(cacheChoices))]}}
		id := 0
		plan.Ops = genHistory(r, format, 3+r.Intn(maxOps-2), &id)
		x.Exec(plan)
	}
}

func (C06) Run(t *testing.T, plan *kernel.Plan, keepLog bool) *kernel.Result {
	return runSession(t, "C06", plan, keepLog)
}

// C08 — a crash or I/O failure during a keystore write loses nothing.
// A fault-free prefix, one victim operation during which one fault fires at
// an enumerated storage call, then a fault-free suffix on a fresh handle.
type C08 struct{}

func (C08) ID() string { return "C08" }

var faultKinds = []string{kernel.FErr, kernel.FErrPartial, kernel.FCrashBefore, kernel.FCrashAfter, kernel.FTorn}

func (C08) Explore(x *kernel.Explorer, seed uint64) {
	r := kernel.NewRNG(seed, 0xc08)
	format := 1 + r.Intn(2)
	base := &kernel.Plan{Prop: "C08", Seed: seed, Swarm: map[string]int64{
		"format": int64(format), "cache": cacheChoices[r.Intn(len(cacheChoices))]}}
	id := 0
	prefix := genHistory(r, format, 1+r.Intn(9), &id)
	// the victim works on a ring of the prefix so that there is history to lose
	ref := prefix[r.Intn(len(prefix))]
	id++
	victim := kernel.Op{ID: id, Kind: r.Pick(OGen, OGen, OGen, ODCur, ODRot, OAll, OListC), S: ref.S, A: []int64{int64(r.Intn(8)), drawClock(r, format)}}
	suffix := genHistory(r, format, 2+r.Intn(6), &id)
	// the suffix always rotates the victim's key again and lists
	id++
	suffix = append(suffix, kernel.Op{ID: id, Kind: OGen, S: ref.S, A: []int64{0, drawClock(r, format)}})
	id++
	suffix = append(suffix, kernel.Op{ID: id, Kind: OWarm, S: ref.S, A: []int64{0, drawClock(r, format)}})
	base.Ops = append(append(append([]kernel.Op{}, prefix...), victim), suffix...)
	// dry run: how many storage calls does the victim perform?
	dry := base.Clone()
	dry.Faults = []kernel.Fault{{OpID: victim.ID, Nth: 1 << 30, Kind: "none"}}
	res := x.Exec(dry)
	calls := int(res.Extra["seamcount0"])
	x.Note("victim_storage_calls", int64(calls))
	for nth := 1; nth <= calls && !x.Expired(); nth++ {
		for _, fk := range faultKinds {
			p := base.Clone()
			p.Seed = kernel.Mix(seed, uint64(nth), uint64(len(fk)))
			p.Seed = seed // same history, same randomness: only the fault differs
			p.Faults = []kernel.Fault{{OpID: victim.ID, Nth: nth, Kind: fk, Arg: int64(r.Intn(1000))}}
			// one fault per history, as the property states it: the reconciliation after the fault assumes
			// that the history before it was fault-free (a second fault while recovering produced a state the
			// model attributed to the wrong operation)
			x.Exec(p)
		}
	}
	x.Note("enumerated_fault_points", int64(calls*len(faultKinds)))
}

func (C08) Run(t *testing.T, plan *kernel.Plan, keepLog bool) *kernel.Result {
	res := runSession(t, "C08", plan, keepLog)
	return res
}

var _ = fmt.Sprintf
