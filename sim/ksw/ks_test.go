package ksw

import (
	"testing"

	"verif/sim/kernel"
)

// TestVerif is the single entry point of the keystore-side harness binary.
func TestVerif(t *testing.T) {
	kernel.WorkerMain(t, map[string]kernel.Property{
		"C06": C06{},
		"C07": C07{},
		"C08": C08{},
		"C10": C10{},
		"C17": C17{},
		"C18": C18{},
		"C20": C20{},
	})
}
