package ksw

import (
	"fmt"
	"testing"
	"testing/cryptotest"
	"testing/synctest"
	"time"

	"github.com/cossacklabs/themis/gothemis/cell"
	"github.com/cossacklabs/themis/gothemis/keys"
	"github.com/cossacklabs/themis/gothemis/message"
	log "github.com/sirupsen/logrus"

	"verif/sim/kernel"
)

// Warm runs throw-away simulated runs through every keystore-side world once,
// so that all lazy one-time initialisation of the process (crypto self-tests,
// id generators, pools) has happened before the first seeded run.
func Warm(t *testing.T) {
	WarmCrypto()
	for _, format := range []int64{1, 2} {
		plan := &kernel.Plan{Prop: "C06", Seed: 12345, Swarm: map[string]int64{"format": format, "cache": 0}}
		id := 0
		plan.Ops = genHistory(kernel.NewRNG(99, 1), int(format), 12, &id)
		runSession(t, "warmup", plan, false)
	}
}

// WarmCrypto exercises every crypto primitive the stand-in uses once.
func WarmCrypto() {
	kp, err := keys.New(keys.TypeEC)
	if err != nil {
		panic(err)
	}
	kp2, _ := keys.New(keys.TypeEC)
	wrapped, err := message.New(kp.Private, kp2.Public).Wrap([]byte("warm-up"))
	if err != nil {
		panic(err)
	}
	if _, err := message.New(kp2.Private, kp.Public).Unwrap(wrapped); err != nil {
		panic(err)
	}
	sc, _ := cell.SealWithKey(&keys.SymmetricKey{Value: []byte("0123456789abcdef0123456789abcdef")})
	enc, _ := sc.Encrypt([]byte("warm-up"), []byte("ctx"))
	if _, err := sc.Decrypt(enc, []byte("ctx")); err != nil {
		panic(err)
	}
}

func init() {
	kernel.Warmup = Warm
	// Acra logs through the global logrus logger; the keystore worlds do not
	// examine log output, so it is silenced (PanicLevel keeps Fatal/Panic).
	log.SetLevel(log.PanicLevel)
}

// bubble runs body inside a synctest bubble with the deterministic
// randomness source installed. One call = one simulated run.
func bubble(t *testing.T, seed uint64, body func()) {
	cryptotest.SetGlobalRandom(t, seed)
	synctest.Test(t, func(t *testing.T) { body() })
}

// clockStep advances the simulated clock before an operation. The amount is
// part of the op (A[last]) so that it is replayed exactly.
func clockStep(ns int64) {
	if ns <= 0 {
		ns = 1
	}
	time.Sleep(time.Duration(ns))
}

// drawClock draws a clock advance: mostly seconds, sometimes sub-second
// (v1 history names have nanosecond resolution; v2 stores seconds, so v2 gets
// at least one second), occasionally hours or years.
func drawClock(r *kernel.RNG, format int) int64 {
	sec := int64(time.Second)
	switch x := r.Intn(20); {
	case x < 3 && format == 1:
		return 1 + int64(r.Intn(5000)) // nanoseconds apart
	case x < 6 && format == 1:
		return int64(time.Millisecond) * int64(1+r.Intn(900))
	case x < 17:
		return sec * int64(1+r.Intn(90))
	case x < 19:
		return sec * 3600 * int64(1+r.Intn(200))
	default:
		return sec * 86400 * 365 * int64(1+r.Intn(3))
	}
}

var clientPool = []string{"client_alpha", "client-beta", "gamma client", "delta_storage", "eps_hmac", "zeta12345"}

// genHistory draws a C06-style operation history.
func genHistory(r *kernel.RNG, format int, n int, nextID *int) []kernel.Op {
	nClients := 1 + r.Intn(3)
	clients := make([]string, nClients)
	perm := r.Perm(len(clientPool))
	for i := range clients {
		clients[i] = clientPool[perm[i]]
	}
	// a run concentrates on a few rings so that histories get deep
	nRings := 1 + r.Intn(4)
	type ringRef struct{ kind, client string }
	rings := make([]ringRef, nRings)
	for i := range rings {
		k := AllKinds[r.Intn(len(AllKinds))]
		rings[i] = ringRef{k, clients[r.Intn(nClients)]}
	}
	ops := make([]kernel.Op, 0, n)
	for i := 0; i < n; i++ {
		rr := rings[r.Intn(nRings)]
		var kind string
		switch x := r.Intn(100); {
		case x < 38:
			kind = OGen
		case x < 48:
			kind = ODCur
		case x < 66:
			kind = ODRot
		case x < 74:
			kind = OReset
		case x < 82:
			kind = OReopen
		case x < 86:
			kind = OWarm
		case x < 91:
			kind = OAll
		case x < 95:
			kind = OListR
		default:
			kind = OCur
		}
		*nextID++
		ops = append(ops, kernel.Op{ID: *nextID, Kind: kind, S: []string{rr.kind, rr.client},
			A: []int64{int64(r.Intn(8)), drawClock(r, format)}})
	}
	return ops
}

// runSession executes a plan on one keystore handle. Shared by C06 and C08.
func runSession(t *testing.T, prop string, plan *kernel.Plan, keepLog bool) *kernel.Result {
	w := kernel.NewWorld(plan, keepLog)
	bubble(t, plan.Seed, func() {
		start := time.Now()
		rng := kernel.NewRNG(plan.Seed, 0xd15c)
		format := int(plan.Sw("format"))
		if format != 2 {
			format = 1
		}
		disk := NewDisk(format, rng)
		cache := int(plan.Sw("cache"))
		model := NewModel()
		var s *Session
		_, cut, pv := kernel.Protect(func() {
			var err error
			s, err = NewSession(w, prop, 0, disk, model, cache)
			if err != nil {
				w.Violate(prop, "open-succeeds", fmt.Sprintf("v%d", format), err.Error())
				return
			}
			for _, op := range plan.Ops {
				clockStep(op.Arg(1, 1))
				s.Step(op)
			}
			// end of run: the cache is reset and everything must line up
			if s.cached() {
				s.H.Reset()
				s.fresh = true
				s.offered = map[string]map[string]bool{}
				s.lastMut = "final-reset"
				s.CheckAll()
			}
		})
		if cut {
			w.Res.Cut = true
		}
		if pv != nil {
			w.Violate(prop, "no-panic", fmt.Sprintf("v%d/harness", format), fmt.Sprint(pv))
		}
		w.Res.SimNanos = int64(time.Since(start))
		for i := range plan.Faults {
			w.Res.Extra[fmt.Sprintf("seamcount%d", i)] = int64(w.SeamCount(i))
		}
		muts := 0
		for _, op := range plan.Ops {
			if op.Kind == OGen || op.Kind == ODCur || op.Kind == ODRot {
				muts++
			}
		}
		w.Res.Trivial = muts < 2
	})
	return w.Finish()
}
