package ksw

import (
	"bytes"
	"fmt"
	"sort"
	"strings"
	"time"

	"github.com/cossacklabs/acra/acrablock"
	"github.com/cossacklabs/acra/acrastruct"
	"github.com/cossacklabs/themis/gothemis/keys"
)

// MKey is a key of the reference model.
type MKey struct {
	N      int // generation number within its ring, from 1
	Val    KeyVal
	Alive  bool
	Gen    time.Time // simulated time of generation
	RotOut time.Time // simulated time it stopped being the newest key
	Cipher []byte    // a marker value protected under this key at birth
	Marker []byte
	// Maybe is set for a key whose write was interrupted by a fault: it may
	// or may not exist on disk (C08).
	Maybe bool
}

// MRing is the model of one key ring / key file family.
type MRing struct {
	Kind   string
	Client string
	Keys   []*MKey // generation order
}

// Model is the keystore reference model: per (kind, owner) an ordered list of
// keys with liveness; the current key is the newest generated one.
type Model struct {
	Rings map[string]*MRing
}

// NewModel makes an empty model.
func NewModel() *Model { return &Model{Rings: map[string]*MRing{}} }

func ringID(kind, client string) string {
	if !HasClient(kind) {
		client = ""
	}
	return kind + "|" + client
}

// Ring returns (creating) the ring for kind/client.
func (m *Model) Ring(kind, client string) *MRing {
	id := ringID(kind, client)
	r, ok := m.Rings[id]
	if !ok {
		if !HasClient(kind) {
			client = ""
		}
		r = &MRing{Kind: kind, Client: client}
		m.Rings[id] = r
	}
	return r
}

// RingIDs returns ring ids in a fixed order.
func (m *Model) RingIDs() []string {
	ids := make([]string, 0, len(m.Rings))
	for id := range m.Rings {
		ids = append(ids, id)
	}
	sort.Strings(ids)
	return ids
}

// Newest is the most recently generated key (alive or not), or nil.
func (r *MRing) Newest() *MKey {
	if len(r.Keys) == 0 {
		return nil
	}
	return r.Keys[len(r.Keys)-1]
}

// AliveNewestFirst lists surviving keys, newest first.
func (r *MRing) AliveNewestFirst() []*MKey {
	var out []*MKey
	for i := len(r.Keys) - 1; i >= 0; i-- {
		if r.Keys[i].Alive {
			out = append(out, r.Keys[i])
		}
	}
	return out
}

// Rotated lists surviving keys other than the newest generated one, oldest
// first.
func (r *MRing) Rotated() []*MKey {
	var out []*MKey
	for i := 0; i < len(r.Keys)-1; i++ {
		if r.Keys[i].Alive {
			out = append(out, r.Keys[i])
		}
	}
	return out
}

// Abstract is the abstract state used by the reach measure.
func (m *Model) Abstract() string {
	var sb strings.Builder
	for _, id := range m.RingIDs() {
		r := m.Rings[id]
		sb.WriteString(id)
		sb.WriteByte(':')
		for _, k := range r.Keys {
			if k.Alive {
				sb.WriteByte('a')
			} else {
				sb.WriteByte('d')
			}
		}
		sb.WriteByte(' ')
	}
	return sb.String()
}

// secrets extracts the secret parts.
func secrets(ks []*MKey) [][]byte {
	out := make([][]byte, len(ks))
	for i, k := range ks {
		out[i] = k.Val.Secret
	}
	return out
}

func equalLists(a, b [][]byte) bool {
	if len(a) != len(b) {
		return false
	}
	for i := range a {
		if !bytes.Equal(a[i], b[i]) {
			return false
		}
	}
	return true
}

func contains(list [][]byte, x []byte) bool {
	for _, y := range list {
		if bytes.Equal(x, y) {
			return true
		}
	}
	return false
}

// protectUnder protects marker under a key value using Acra's own envelope
// code, so key values are also compared through what they do.
func protectUnder(kind string, v KeyVal, marker []byte) ([]byte, error) {
	if IsPair(kind) {
		return acrastruct.CreateAcrastruct(marker, &keys.PublicKey{Value: v.Public}, nil)
	}
	return acrablock.CreateAcraBlock(marker, v.Secret, nil)
}

// revealWith reveals a protected marker with a newest-first list of secrets.
func revealWith(kind string, secretsList [][]byte, cipher []byte) ([]byte, error) {
	if IsPair(kind) {
		ks := make([]*keys.PrivateKey, len(secretsList))
		for i, s := range secretsList {
			ks[i] = &keys.PrivateKey{Value: append([]byte(nil), s...)}
		}
		return acrastruct.DecryptRotatedAcrastruct(cipher, ks, nil)
	}
	blk, err := acrablock.NewAcraBlockFromData(cipher)
	if err != nil {
		return nil, err
	}
	cpKeys := make([][]byte, len(secretsList))
	for i, s := range secretsList {
		cpKeys[i] = append([]byte(nil), s...)
	}
	return blk.Decrypt(cpKeys, nil)
}

// pairMatches checks that a public and a private half belong together.
func pairMatches(v KeyVal) error {
	marker := []byte("pair-check-marker")
	c, err := acrastruct.CreateAcrastruct(marker, &keys.PublicKey{Value: v.Public}, nil)
	if err != nil {
		return fmt.Errorf("encrypt with public half: %v", err)
	}
	p, err := acrastruct.DecryptAcrastruct(c, &keys.PrivateKey{Value: append([]byte(nil), v.Secret...)}, nil)
	if err != nil {
		return fmt.Errorf("decrypt with private half: %v", err)
	}
	if !bytes.Equal(p, marker) {
		return fmt.Errorf("round trip differs")
	}
	return nil
}
