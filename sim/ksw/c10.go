package ksw

import (
	"bytes"
	"encoding/hex"
	"fmt"
	"math"
	"os"
	"regexp"
	"sort"
	"strconv"
	"strings"
	"testing"
	"time"

	"github.com/anishathalye/porcupine"
	"github.com/cossacklabs/acra/encryptor/base/config"
	"github.com/cossacklabs/acra/pseudonymization"
	"github.com/cossacklabs/acra/pseudonymization/common"
	"github.com/cossacklabs/acra/pseudonymization/storage"
	bolt "go.etcd.io/bbolt"

	"verif/sim/kernel"
)

// C10 — tokens are format-preserving, reversible for the owner, consistent.
//
// 2-3 simulated workers share one tokenizer over a token store whose every
// Get/Save is a seam (yield + fault point). They tokenize and detokenize
// overlapping values of every token type under two client contexts, through
// the typed API and through the text boundary (DataTokenizer). The recorded
// history is checked for linearizability against a sequential
// insert-if-absent token map (porcupine), plus shape, reversibility, owner
// scoping and injectivity rules.
type C10 struct{}

func (C10) ID() string { return "C10" }

var c10Types = []common.TokenType{common.TokenType_Int32, common.TokenType_Int64, common.TokenType_String, common.TokenType_Bytes, common.TokenType_Email}

// value pools per type, as text (what a SQL client would send)
var c10Pool = map[common.TokenType][]string{
	common.TokenType_Int32:  {"0", "1", "-1", "2147483647", "-2147483648", "12345", "2147483648", "-2147483649", "4294967296", "99999999999"},
	common.TokenType_Int64:  {"0", "1", "-1", "9223372036854775807", "-9223372036854775808", "2147483648", "77"},
	common.TokenType_String: {"", "a", "hello", "hello world", strings.Repeat("long string ", 20), "ключ", "with\x00nul"},
	common.TokenType_Bytes:  {"", "\x00", "\xff\xfe\xfd", "0123456789abcdef", strings.Repeat("\x01\x02", 100)},
	common.TokenType_Email:  {"a", "ab", "a@b", "a@b.c", "ab@c.de", "john@example.com", "first.last+tag@sub.example.org"},
}

type c10Setting struct {
	config.ColumnEncryptionSetting // nil; only the methods below are used
	tt                             common.TokenType
	consistent                     bool
}

func (s c10Setting) IsConsistentTokenization() bool { return s.consistent }
func (s c10Setting) GetTokenType() common.TokenType { return s.tt }
func (s c10Setting) ColumnName() string             { return "col" }
func (s c10Setting) IsTokenized() bool              { return true }

func (C10) Explore(x *kernel.Explorer, seed uint64) {
	r := kernel.NewRNG(seed, 0xc10)
	for i := 0; i < 6 && !x.Expired(); i++ {
		nproc := 1 + r.Intn(3)
		plan := &kernel.Plan{Prop: "C10", Seed: kernel.Mix(seed, uint64(i)), Swarm: map[string]int64{
			"procs": int64(nproc), "store": int64(r.Intn(2)), "encrypt": int64(r.Intn(2)), "consistent": int64(1 - r.Intn(4)/3)}}
		tt := c10Types[r.Intn(len(c10Types))] // a run concentrates on one type, few values
		nvals := 1 + r.Intn(4)
		per := 3 + r.Intn(7)
		id := 0
		for p := 0; p < nproc; p++ {
			for j := 0; j < per; j++ {
				id++
				kind := "tok"
				if r.Chance(1, 3) {
					kind = "detok"
				} else if r.Chance(1, 12) {
					kind = "maint"
				} else if nproc == 1 && r.Chance(1, 10) {
					// maintenance window: tokens disabled (or removed), requests in between, enabled again
					kind = "window"
				} else if r.Chance(1, 10) {
					// more than a day passes: the next read of a record refreshes its access time
					kind = "age"
				}
				pool := c10Pool[tt]
				plan.Ops = append(plan.Ops, kernel.Op{ID: id, Proc: p, Kind: kind,
					A: []int64{int64(tt), int64(r.Intn(2)), int64(r.Intn(3)), int64(r.Intn(100))},
					S: []string{pool[(r.Intn(nvals)+int(seed%7))%len(pool)]}})
			}
		}
		if !x.Quick() || r.Chance(1, 3) {
			// fault batch: a store call fails
			nf := 1 + r.Intn(2)
			for k := 0; k < nf; k++ {
				f := kernel.Fault{Site: "tok.", Nth: 1 + r.Intn(20), Kind: kernel.FErr}
				if r.Chance(1, 3) {
					// a stored token record read back damaged (storage fault)
					f = kernel.Fault{Site: "tok.Get", Nth: 1 + r.Intn(12), Kind: kernel.FTorn, Arg: int64(r.Intn(100000))}
				}
				plan.Faults = append(plan.Faults, f)
			}
		}
		x.Exec(plan)
	}
}

// yieldTokenStorage makes every store call a seam.
type yieldTokenStorage struct {
	common.TokenStorage
	w *kernel.World
	// calls counts the store calls of the request in progress (set to zero by the worker before a request)
	calls *int
}

// c10CallBudget bounds the store calls of one tokenizer request: a handful are needed, a request that keeps
// calling the store is a request that does not end (C14: no input or state can exhaust resources).
const c10CallBudget = 200

var errC10Budget = fmt.Errorf("simulated token store: the request used up its budget of %d store calls", c10CallBudget)

func (y yieldTokenStorage) spent() bool {
	if y.calls == nil {
		return false
	}
	*y.calls++
	return *y.calls > c10CallBudget
}

func (y yieldTokenStorage) Save(id []byte, ctx common.TokenContext, data []byte) error {
	if y.spent() {
		return errC10Budget
	}
	d := y.w.Seam(y.w.Cur, "tok.Save", fmt.Sprintf("%x", id[:min(4, len(id))]))
	if d.Kind != "" {
		return fmt.Errorf("injected token store error")
	}
	return y.TokenStorage.Save(id, ctx, data)
}

func (y yieldTokenStorage) Get(id []byte, ctx common.TokenContext) ([]byte, error) {
	if y.spent() {
		return nil, errC10Budget
	}
	d := y.w.Seam(y.w.Cur, "tok.Get", fmt.Sprintf("%x", id[:min(4, len(id))]))
	if d.Kind == kernel.FTorn {
		// the stored record comes back damaged: cut short, a byte flipped, or extended
		data, err := y.TokenStorage.Get(id, ctx)
		if err != nil || len(data) == 0 {
			return data, err
		}
		c := append([]byte{}, data...)
		switch d.Arg % 3 {
		case 0:
			return c[:int(d.Arg/3)%len(c)], nil
		case 1:
			c[int(d.Arg/3)%len(c)] ^= 1 << uint(d.Arg%8)
			return c, nil
		}
		return append(c, c[:min(len(c), 1+int(d.Arg/3)%9)]...), nil
	}
	if d.Kind != "" {
		return nil, fmt.Errorf("injected token store error")
	}
	return y.TokenStorage.Get(id, ctx)
}

type c10In struct {
	Kind  string // tok | detok
	Key   string // ctx|type|value  (tok)  /  ctx|type|token (detok)
	Value string
}

type c10Out struct {
	OK  bool
	Val string
}

// sequential model: value -> token, insert-if-absent, injective
type c10State struct {
	fwd string // canonical encoding of the map, "k=v;" sorted
}

func c10Parse(s string) map[string]string {
	m := map[string]string{}
	for _, kv := range strings.Split(s, "\x1e") {
		if kv == "" {
			continue
		}
		i := strings.Index(kv, "\x1f")
		k, _ := hex.DecodeString(kv[:i])
		v, _ := hex.DecodeString(kv[i+1:])
		m[string(k)] = string(v)
	}
	return m
}

func c10Encode(m map[string]string) string {
	ks := make([]string, 0, len(m))
	for k := range m {
		ks = append(ks, k)
	}
	sort.Strings(ks)
	var sb strings.Builder
	for _, k := range ks {
		sb.WriteString(hex.EncodeToString([]byte(k)) + "\x1f" + hex.EncodeToString([]byte(m[k])) + "\x1e")
	}
	return sb.String()
}

var c10Model = porcupine.Model{
	Init: func() interface{} { return c10State{} },
	Step: func(state, input, output interface{}) (bool, interface{}) {
		s := state.(c10State)
		in := input.(c10In)
		out := output.(c10Out)
		if !out.OK {
			return true, s
		}
		m := c10Parse(s.fwd)
		if in.Kind == "tok" {
			if t, ok := m[in.Key]; ok {
				return t == out.Val, s
			}
			// a fresh token must not already stand for another value
			// ... within the same client context and type
			scope := in.Key[:len(in.Key)-len(in.Value)]
			for k, t := range m {
				if t == out.Val && k != in.Key && strings.HasPrefix(k, scope) {
					return false, s
				}
			}
			m[in.Key] = out.Val
			return true, c10State{c10Encode(m)}
		}
		return true, s
	},
	Equal: func(a, b interface{}) bool { return a.(c10State).fwd == b.(c10State).fwd },
	DescribeOperation: func(i, o interface{}) string {
		return fmt.Sprintf("%s(%q)->%q,%v", i.(c10In).Kind, i.(c10In).Key, o.(c10Out).Val, o.(c10Out).OK)
	},
}

// e-mail-shaped: one '@' with something on both sides
var c10EmailRe = regexp.MustCompile(`^[^@]+@[^@.]([^@]*[^@.])?$`)

// c10Shape checks that token has the type and shape of value (both text).
func c10Shape(tt common.TokenType, value, token string) string {
	switch tt {
	case common.TokenType_Int32:
		n, err := strconv.ParseInt(token, 10, 64)
		if err != nil || n < math.MinInt32 || n > math.MaxInt32 {
			return fmt.Sprintf("token %q is not a 32-bit integer", token)
		}
	case common.TokenType_Int64:
		if _, err := strconv.ParseInt(token, 10, 64); err != nil {
			return fmt.Sprintf("token %q is not a 64-bit integer", token)
		}
	case common.TokenType_String, common.TokenType_Bytes:
		if len(token) != len(value) {
			return fmt.Sprintf("token has length %d, value %d", len(token), len(value))
		}
	case common.TokenType_Email:
		if len(token) != len(value) {
			return fmt.Sprintf("token has length %d, value %d", len(token), len(value))
		}
		if !c10EmailRe.MatchString(token) {
			return fmt.Sprintf("token %q is not e-mail-shaped", token)
		}
	}
	return ""
}

func (C10) Run(t *testing.T, plan *kernel.Plan, keepLog bool) *kernel.Result {
	w := kernel.NewWorld(plan, keepLog)
	w.MaxSteps = 6000
	var hist []porcupine.Operation
	faulty := len(plan.Faults) > 0
	bubble(t, plan.Seed, func() {
		start := time.Now()
		rng := kernel.NewRNG(plan.Seed, 0xd10c)
		var inner common.TokenStorage
		storeName := "memory"
		if plan.Sw("store") == 1 {
			storeName = "boltdb"
			f, err := os.CreateTemp("", "verif-c10-*.db")
			if err != nil {
				panic(err)
			}
			f.Close()
			defer os.Remove(f.Name())
			db, err := bolt.Open(f.Name(), 0o600, &bolt.Options{NoSync: true, NoGrowSync: true})
			if err != nil {
				panic(err)
			}
			defer db.Close()
			inner = storage.NewBoltDBTokenStorage(db)
		} else {
			m, err := storage.NewMemoryTokenStorage()
			if err != nil {
				panic(err)
			}
			inner = m
		}
		storeCalls := 0
		var store common.TokenStorage = yieldTokenStorage{inner, w, &storeCalls}
		clients := []string{"client_alpha", "client-beta"}
		if plan.Sw("encrypt") == 1 {
			// the encrypting wrapper needs symmetric keys of both clients
			disk := NewDisk(1, rng)
			scratch := kernel.NewWorld(&kernel.Plan{}, false)
			scratch.MaxSteps = 1 << 60
			h, err := Open(scratch, 0, disk, 0)
			if err != nil {
				panic(err)
			}
			for _, c := range clients {
				if err := h.KS.GenerateClientIDSymmetricKey([]byte(c)); err != nil {
					panic(err)
				}
			}
			enc, err := storage.NewSCellEncryptor(h.KS)
			if err != nil {
				panic(err)
			}
			store = storage.WrapStorageWithEncryption(store, enc)
			storeName += "+encrypted"
		}
		tokenizer, err := pseudonymization.NewPseudoanonymizer(store)
		if err != nil {
			panic(err)
		}
		dt, _ := pseudonymization.NewDataTokenizer(tokenizer)
		consistent := plan.Sw("consistent") == 1
		nproc := max(1, int(plan.Sw("procs")))
		type issued struct {
			ctx, token, value string
			tt                common.TokenType
		}
		var tokens []issued // tokens handed out so far (any worker)
		finished := make([]bool, nproc)
		bodies := make([]func(int), nproc)
		for p := 0; p < nproc; p++ {
			bodies[p] = func(proc int) {
				for _, op := range plan.Ops {
					if op.Proc != proc {
						continue
					}
					tt := common.TokenType(op.Arg(0, 0))
					client := clients[int(op.Arg(1, 0))%2]
					ctx := common.TokenContext{ClientID: []byte(client)}
					setting := c10Setting{tt: tt, consistent: consistent}
					site := fmt.Sprintf("%s/%s", storeName, common.TokenType_name[int32(tt)])
					w.BeginOp(proc, op)
					storeCalls = 0
					call := w.Res.Steps
					firedBefore := totalFired(w)
					// a stored record that came back damaged (torn) during this operation: without the encrypting
					// wrapper nothing authenticates token records, so the answer built from it is only required
					// not to bring the handler down
					tornBefore := w.Res.Fired[kernel.FTorn]
					damaged := func() bool { return w.Res.Fired[kernel.FTorn] > tornBefore }
					switch op.Kind {
					case "tok":
						value := op.Str(0)
						var tok []byte
						err, pv := Guard(func() error { var e error; tok, e = dt.Tokenize([]byte(value), ctx, setting); return e })
						under := totalFired(w) > firedBefore
						if pv != nil {
							w.Violate("C10", "no-panic", site+"/tokenize", fmt.Sprintf("value %q: %v", value, pv))
							w.EndOp(proc, "panic")
							continue
						}
						out := c10Out{OK: err == nil, Val: string(tok)}
						if err == nil && damaged() {
							w.Probe("answer-from-damaged-record")
						} else if err == nil {
							if msg := c10Shape(tt, value, string(tok)); msg != "" {
								w.Violate("C10", "token-has-shape-of-value", site, fmt.Sprintf("value %q: %s", value, msg))
							}
							// the owner gets the original back, right away
							var back []byte
							derr, dpv := Guard(func() error { var e error; back, e = dt.Detokenize(tok, ctx, setting); return e })
							if dpv != nil {
								w.Violate("C10", "no-panic", site+"/detokenize", fmt.Sprint(dpv))
							} else if totalFired(w) == firedBefore && (derr != nil || string(back) != value) {
								w.Violate("C10", "owner-gets-original", site, fmt.Sprintf("tokenize(%q)=%q but detokenize gives %q (err=%v)", value, tok, back, derr))
							}
							// another client gets the token itself
							other := common.TokenContext{ClientID: []byte(clients[(int(op.Arg(1, 0))+1)%2])}
							ob, oerr := dt.Detokenize(tok, other, setting)
							// (only where a chance collision between the two clients' tokens is out of the question)
							if !damaged() && oerr == nil && string(ob) == value && value != string(tok) && (len(tok) >= 8 || tt == common.TokenType_Int32 || tt == common.TokenType_Int64) {
								known := false
								for _, is := range tokens {
									if is.ctx == string(other.ClientID) && is.token == string(tok) && is.tt == tt {
										known = true
									}
								}
								if !known {
									w.Violate("C10", "other-client-gets-token", site, fmt.Sprintf("token %q of %s detokenizes to the original for another client", tok, client))
								}
							}
							if !damaged() {
								tokens = append(tokens, issued{client, string(tok), value, tt})
							}
						} else if !under {
							// fault-free tokenization of a well-formed value must work;
							// a value outside the column type may be refused
							if !c10Refusable(tt, value) {
								w.Violate("C10", "tokenize-succeeds", site+":"+slug(err), fmt.Sprintf("value %q: %v", value, err))
							} else {
								w.Probe("refused-out-of-type-value")
							}
						}
						w.EndOp(proc, fmt.Sprintf("%q err=%v", tok, err))
						if consistent && !damaged() {
							hist = append(hist, porcupine.Operation{ClientId: proc, Call: int64(call), Return: int64(w.Res.Steps),
								Input:  c10In{Kind: "tok", Key: fmt.Sprintf("%s|%d|%s", client, tt, value), Value: value},
								Output: out})
						}
					case "age":
						time.Sleep(25 * time.Hour)
						w.Probe("aged-a-day")
						w.EndOp(proc, "aged")
					case "window":
						// While its record is disabled or removed a token is an unknown token: the owner gets the token
						// itself back, without an error. (Single worker: nobody else is surprised by the window.)
						action := []common.TokenAction{common.TokenDisable, common.TokenRemove}[int(op.Arg(2, 0))%2]
						err, pv := Guard(func() error {
							return store.VisitMetadata(func(int, common.TokenMetadata) (common.TokenAction, error) { return action, nil })
						})
						if pv != nil {
							w.Violate("C10", "no-panic", site+"/maintenance", fmt.Sprint(pv))
						} else if err != nil {
							w.Violate("C10", "maintenance-succeeds", storeName, err.Error())
						} else if totalFired(w) == firedBefore {
							for k, is := range tokens {
								if k >= 3 || is.tt != tt {
									continue
								}
								var back []byte
								ictx := common.TokenContext{ClientID: []byte(is.ctx)}
								derr, dpv := Guard(func() error { var e error; back, e = dt.Detokenize([]byte(is.token), ictx, setting); return e })
								if dpv != nil {
									w.Violate("C10", "no-panic", site+"/detokenize", fmt.Sprint(dpv))
								} else if totalFired(w) == firedBefore && (derr != nil || string(back) != is.token) {
									w.Violate("C10", "disabled-token-is-an-unknown-token", site, fmt.Sprintf("token %q of %s while %s: detokenize gives %q (err=%v), want the token itself", is.token, is.ctx, map[common.TokenAction]string{common.TokenDisable: "disabled", common.TokenRemove: "removed"}[action], back, derr))
								}
							}
							// a value that has a (now unreadable) record is tokenized again during the window: whatever
							// the answer, the request must end after a few store calls
							for k, is := range tokens {
								if k >= 2 || is.tt != tt {
									continue
								}
								storeCalls = 0
								ictx := common.TokenContext{ClientID: []byte(is.ctx)}
								_, tpv := Guard(func() error { _, e := dt.Tokenize([]byte(is.value), ictx, setting); return e })
								if int64(storeCalls) > w.Res.Extra["window_tokenize_store_calls_max"] {
									w.Res.Extra["window_tokenize_store_calls_max"] = int64(storeCalls)
								}
								if tpv != nil {
									w.Violate("C10", "no-panic", site+"/tokenize", fmt.Sprint(tpv))
								} else if storeCalls > c10CallBudget {
									w.Violate("C10", "request-ends", site+"/tokenize-during-window", fmt.Sprintf("tokenizing %q again while its record is %s took more than %d store calls and was cut off", is.value, map[common.TokenAction]string{common.TokenDisable: "disabled", common.TokenRemove: "removed"}[action], c10CallBudget))
								}
								storeCalls = 0
							}
							w.Probe("maintenance-window")
						}
						if action == common.TokenRemove {
							tokens = nil // gone for good
							hist = nil
						} else {
							err, pv := Guard(func() error {
								return store.VisitMetadata(func(int, common.TokenMetadata) (common.TokenAction, error) { return common.TokenEnable, nil })
							})
							if pv != nil {
								w.Violate("C10", "no-panic", site+"/maintenance", fmt.Sprint(pv))
							} else if err != nil {
								w.Violate("C10", "maintenance-succeeds", storeName, err.Error())
							}
						}
						w.EndOp(proc, "window")
					case "maint":
						// maintenance between requests: every token is disabled and
						// enabled again in one go (no request sees the disabled state);
						// afterwards everything must be as before
						for _, action := range []common.TokenAction{common.TokenDisable, common.TokenEnable} {
							act := action
							err, pv := Guard(func() error {
								return store.VisitMetadata(func(int, common.TokenMetadata) (common.TokenAction, error) { return act, nil })
							})
							if pv != nil {
								w.Violate("C10", "no-panic", site+"/maintenance", fmt.Sprint(pv))
							} else if err != nil {
								w.Violate("C10", "maintenance-succeeds", storeName, err.Error())
							}
						}
						w.Probe("maintenance-disable-enable")
						w.EndOp(proc, "maint")
					case "detok":
						// a token somebody was given, or an unknown one
						var tok string
						var want string
						if len(tokens) > 0 && op.Arg(3, 0)%4 != 0 {
							is := tokens[int(op.Arg(3, 0))%len(tokens)]
							if is.tt != tt {
								w.EndOp(proc, "skip")
								continue
							}
							tok = is.token
							if is.ctx == client {
								want = is.value
							} else {
								want = is.token
							}
						} else {
							pool := c10Pool[tt]
							tok = pool[int(op.Arg(3, 0))%len(pool)]
							if c10Refusable(tt, tok) {
								w.EndOp(proc, "skip")
								continue
							}
							want = tok
							for _, is := range tokens {
								if is.ctx == client && is.token == tok && is.tt == tt {
									want = is.value
								}
							}
						}
						var back []byte
						err, pv := Guard(func() error { var e error; back, e = dt.Detokenize([]byte(tok), ctx, setting); return e })
						if pv != nil {
							w.Violate("C10", "no-panic", site+"/detokenize", fmt.Sprint(pv))
						} else if totalFired(w) == firedBefore && !faulty && (len(tok) >= 8 || tt == common.TokenType_Int32 || tt == common.TokenType_Int64) {
							// (short tokens can collide with another value's token by chance)
							if err != nil {
								w.Violate("C10", "detokenize-succeeds", site+":"+slug(err), fmt.Sprintf("token %q: %v", tok, err))
							} else if string(back) != want {
								w.Violate("C10", "detokenize-result", site, fmt.Sprintf("detokenize(%q) for %s = %q, want %q", tok, client, back, want))
							}
						}
						w.EndOp(proc, fmt.Sprintf("%q err=%v", back, err))
					}
				}
				finished[proc] = true
			}
		}
		w.RunProcs(bodies)
		if w.Deadlock {
			w.Violate("C10", "no-deadlock", storeName, "workers blocked")
		}
		// two different values never share a token within one client context
		seen := map[string]string{}
		for _, is := range tokens {
			k := fmt.Sprintf("%s|%d|%s", is.ctx, is.tt, is.token)
			if v, ok := seen[k]; ok && v != is.value {
				w.Violate("C10", "token-unique-per-value", storeName, fmt.Sprintf("token %q stands for both %q and %q in context %s", is.token, v, is.value, is.ctx))
			}
			seen[k] = is.value
		}
		w.State(fmt.Sprintf("%s tokens=%d consistent=%v", storeName, len(tokens), consistent))
		w.Res.SimNanos = int64(time.Since(start))
		w.Res.Trivial = len(plan.Ops) < 3
	})
	if !w.Res.Cut && len(hist) > 0 {
		switch porcupine.CheckOperationsTimeout(c10Model, hist, 20*time.Second) {
		case porcupine.Illegal:
			var sb bytes.Buffer
			for _, o := range hist {
				fmt.Fprintf(&sb, "[p%d %d-%d %s] ", o.ClientId, o.Call, o.Return, c10Model.DescribeOperation(o.Input, o.Output))
			}
			w.Violate("C10", "consistent-tokenization-linearizable", "history", sb.String())
		case porcupine.Unknown:
			w.Probe("porcupine-unknown")
		}
	}
	return w.Finish()
}

// c10Refusable tells whether a text value lies outside the column's token
// type, so that refusing it is correct behaviour.
func c10Refusable(tt common.TokenType, value string) bool {
	if value == "" {
		// the only token of the same length is the value itself, and the
		// encrypting store cannot hold empty records: refusing is acceptable
		return true
	}
	switch tt {
	case common.TokenType_Int32:
		n, err := strconv.ParseInt(value, 10, 64)
		return err != nil || n < math.MinInt32 || n > math.MaxInt32
	case common.TokenType_Int64:
		_, err := strconv.ParseInt(value, 10, 64)
		return err != nil
	case common.TokenType_Email:
		// a value that is not an e-mail address cannot get an e-mail-shaped token
		return !c10EmailRe.MatchString(value)
	}
	return false
}
