package ksw

import (
	"bytes"
	"errors"
	"fmt"
	"sort"
	"strings"
	"testing"
	"time"

	"github.com/anishathalye/porcupine"
	"github.com/cossacklabs/acra/keystore"
	v2api "github.com/cossacklabs/acra/keystore/v2/keystore/api"
	beapi "github.com/cossacklabs/acra/keystore/v2/keystore/filesystem/backend/api"

	"verif/sim/kernel"
)

// C17 — concurrent keystore writers never lose each other's updates.
//
// Part (a), keystore v2: 2-3 simulated processes, each with its own keystore
// handle over one shared back end, add keys, switch the current key, destroy
// keys and read, on the same and on different key rings. The scheduler
// interleaves them at every back-end call and lock acquisition. The recorded
// invoke/return history is checked for linearizability against a sequential
// key-ring model (porcupine); readers must never see an unverifiable ring;
// all processes must finish (no deadlock).
type C17 struct{}

func (C17) ID() string { return "C17" }

// ring operations of the C17 workload
const (
	c17Add     = "add"
	c17SetCur  = "setcur"
	c17Destroy = "destroy"
	c17Cur     = "cur"
	c17All     = "all"
	c17Gen     = "gengen" // compound ServerKeyStore generate (add + set current)
	c17State_  = "setstate"
)

type c17Ring struct {
	path   string
	pair   bool
	client string
}

func c17Rings(n int) []c17Ring {
	all := []c17Ring{
		{"client/client_alpha/storage-sym", false, "client_alpha"},
		{"client/client_alpha/storage", true, "client_alpha"},
		{"client/client-beta/storage-sym", false, "client-beta"},
	}
	return all[:n]
}

func (C17) Explore(x *kernel.Explorer, seed uint64) {
	r := kernel.NewRNG(seed, 0xc17)
	for i := 0; i < 3 && !x.Expired(); i++ {
		exploreC17b(x, r, kernel.Mix(seed, 0xb, uint64(i)))
	}
	for i := 0; i < 6 && !x.Expired(); i++ {
		nproc := 2 + r.Intn(2)
		nrings := 1 + r.Intn(2)
		if r.Chance(1, 5) {
			nrings = 3
		}
		perProc := 3 + r.Intn(6)
		if !x.Quick() {
			perProc = 3 + r.Intn(10)
		}
		plan := &kernel.Plan{Prop: "C17", Seed: kernel.Mix(seed, uint64(i)), Swarm: map[string]int64{
			"procs": int64(nproc), "rings": int64(nrings), "reuse": int64(r.Intn(2))}}
		id := 0
		for p := 0; p < nproc; p++ {
			for j := 0; j < perProc; j++ {
				id++
				var kind string
				switch v := r.Intn(100); {
				case v < 30:
					kind = c17Add
				case v < 48:
					kind = c17SetCur
				case v < 58:
					kind = c17Destroy
				case v < 66:
					kind = c17State_
				case v < 78:
					kind = c17Cur
				case v < 92:
					kind = c17All
				default:
					kind = c17Add
				}
				op := kernel.Op{ID: id, Proc: p, Kind: kind, A: []int64{int64(r.Intn(nrings)), int64(r.Intn(16))}}
				if kind == c17Add {
					op.B = [][]byte{[]byte(fmt.Sprintf("key-%02d-%s", id, strings.Repeat("k", 25)))}
				}
				plan.Ops = append(plan.Ops, op)
			}
		}
		x.Exec(plan)
	}
}

// c17In / c17Out are porcupine inputs and outputs.
type c17In struct {
	Kind string
	Val  string // add
	Seq  int    // setcur, destroy
}

type c17Out struct {
	OK   bool
	Seq  int      // add
	Val  string   // cur
	List []string // all
	Err  string
}

type c17Key struct {
	seq  int
	val  string
	dead bool
}

type c17State struct {
	keys []c17Key
	cur  int
}

func (s c17State) String() string {
	var sb strings.Builder
	fmt.Fprintf(&sb, "cur=%d", s.cur)
	for _, k := range s.keys {
		fmt.Fprintf(&sb, " %d:%s:%v", k.seq, k.val, k.dead)
	}
	return sb.String()
}

func (s c17State) clone() c17State {
	return c17State{append([]c17Key(nil), s.keys...), s.cur}
}

var c17Model = porcupine.Model{
	Init: func() interface{} { return c17State{} },
	Step: func(state, input, output interface{}) (bool, interface{}) {
		s := state.(c17State)
		in := input.(c17In)
		out := output.(c17Out)
		find := func(seq int) int {
			for i, k := range s.keys {
				if k.seq == seq {
					return i
				}
			}
			return -1
		}
		switch in.Kind {
		case c17Add:
			if !out.OK {
				return true, s // a failed operation changes nothing
			}
			next := 1
			if len(s.keys) > 0 {
				next = s.keys[len(s.keys)-1].seq + 1
			}
			if out.Seq != next {
				return false, s
			}
			n := s.clone()
			n.keys = append(n.keys, c17Key{out.Seq, in.Val, false})
			return true, n
		case c17SetCur:
			if !out.OK {
				return true, s
			}
			if find(in.Seq) < 0 {
				return false, s
			}
			n := s.clone()
			n.cur = in.Seq
			return true, n
		case c17Destroy:
			if !out.OK {
				return true, s
			}
			i := find(in.Seq)
			if i < 0 || s.keys[i].dead {
				return false, s
			}
			n := s.clone()
			n.keys[i].dead = true
			return true, n
		case c17State_:
			if !out.OK {
				return true, s
			}
			i := find(in.Seq)
			if i < 0 || s.keys[i].dead {
				return false, s
			}
			return true, s // the state itself does not change what readers get
		case c17Cur:
			i := find(s.cur)
			if out.OK {
				return i >= 0 && !s.keys[i].dead && s.keys[i].val == out.Val, s
			}
			// an error is explained by: no ring yet / no current key / current destroyed
			return s.cur == 0 || (i >= 0 && s.keys[i].dead), s
		case c17All:
			if !out.OK {
				return len(s.keys) == 0, s
			}
			var want []string
			for i := len(s.keys) - 1; i >= 0; i-- {
				if !s.keys[i].dead {
					want = append(want, s.keys[i].val)
				}
			}
			if len(want) != len(out.List) {
				return false, s
			}
			for i := range want {
				if want[i] != out.List[i] {
					return false, s
				}
			}
			return true, s
		}
		return false, s
	},
	Equal: func(a, b interface{}) bool { return a.(c17State).String() == b.(c17State).String() },
	DescribeOperation: func(input, output interface{}) string {
		return fmt.Sprintf("%+v -> %+v", input, output)
	},
}

// expectedReadError tells whether a read error is one a healthy keystore
// produces (missing ring, no current key, destroyed key) as opposed to a
// broken or unverifiable ring.
func expectedReadError(err error) bool {
	if err == nil {
		return true
	}
	if errors.Is(err, beapi.ErrNotExist) || errors.Is(err, v2api.ErrNoCurrentKey) || errors.Is(err, v2api.ErrKeyDestroyed) ||
		errors.Is(err, keystore.ErrKeysNotFound) || errors.Is(err, v2api.ErrKeyNotExist) {
		return true
	}
	return false
}

func (C17) Run(t *testing.T, plan *kernel.Plan, keepLog bool) *kernel.Result {
	if plan.Sw("part") == 2 {
		return runC17b(t, plan, keepLog)
	}
	w := kernel.NewWorld(plan, keepLog)
	w.MaxSteps = 6000
	hist := map[string][]porcupine.Operation{}
	bubble(t, plan.Seed, func() {
		start := time.Now()
		rng := kernel.NewRNG(plan.Seed, 0xd17c)
		disk := NewDisk(2, rng)
		nproc := int(plan.Sw("procs"))
		if nproc < 2 {
			nproc = 2
		}
		rings := c17Rings(max(1, min(3, int(plan.Sw("rings")))))
		finished := make([]bool, nproc)
		record := func(ring string, proc int, in c17In, out c17Out, call, ret int) {
			hist[ring] = append(hist[ring], porcupine.Operation{ClientId: proc, Input: in, Call: int64(call), Output: out, Return: int64(ret)})
		}
		bodies := make([]func(int), nproc)
		for p := 0; p < nproc; p++ {
			bodies[p] = func(proc int) {
				h, err := Open(w, proc, disk, 0)
				if err != nil {
					w.Violate("C17", "open-succeeds", "v2", err.Error())
					return
				}
				var mySeqs = map[string][]int{} // ring -> seqnums this process added
				// a process may keep using one key ring object for several
				// operations (swarm knob "reuse") instead of reopening it
				kept := map[string]v2api.MutableKeyRing{}
				openRW := func(path string, op kernel.Op) (v2api.MutableKeyRing, error) {
					if plan.Sw("reuse") == 1 && op.Arg(1, 0)%4 != 3 {
						if r, ok := kept[path]; ok {
							w.Probe("ring-object-reused")
							return r, nil
						}
					}
					r, e := h.V2.OpenKeyRingRW(path)
					if e == nil {
						kept[path] = r
					}
					return r, e
				}
				for _, op := range plan.Ops {
					if op.Proc != proc {
						continue
					}
					ring := rings[int(op.Arg(0, 0))%len(rings)]
					w.BeginOp(proc, op)
					call := w.Res.Steps
					var in c17In
					var out c17Out
					err, pv := Guard(func() error {
						switch op.Kind {
						case c17Add:
							in = c17In{Kind: c17Add, Val: string(op.Buf(0))}
							r, e := openRW(ring.path, op)
							if e != nil {
								return e
							}
							desc := v2api.KeyDescription{ValidSince: time.Now(), ValidUntil: time.Now().Add(time.Hour)}
							if ring.pair {
								desc.Data = []v2api.KeyData{{Format: v2api.ThemisKeyPairFormat, PublicKey: []byte("pub-" + in.Val), PrivateKey: op.Buf(0)}}
							} else {
								desc.Data = []v2api.KeyData{{Format: v2api.ThemisSymmetricKeyFormat, SymmetricKey: op.Buf(0)}}
							}
							seq, e := r.AddKey(desc)
							if e != nil {
								return e
							}
							out.Seq = seq
							mySeqs[ring.path] = append(mySeqs[ring.path], seq)
							return nil
						case c17SetCur, c17Destroy, c17State_:
							// target: usually a key this process added, sometimes any small seqnum
							seq := 1 + int(op.Arg(1, 0))%4
							if ms := mySeqs[ring.path]; len(ms) > 0 && op.Arg(1, 0)%3 != 0 {
								seq = ms[int(op.Arg(1, 0))%len(ms)]
							}
							in = c17In{Kind: op.Kind, Seq: seq}
							r, e := openRW(ring.path, op)
							if e != nil {
								return e
							}
							if op.Kind == c17SetCur {
								return r.SetCurrent(seq)
							}
							if op.Kind == c17State_ {
								states := []v2api.KeyState{v2api.KeyActive, v2api.KeySuspended, v2api.KeyDeactivated, v2api.KeyCompromised}
								return r.SetState(seq, states[int(op.Arg(1, 0)/4)%len(states)])
							}
							return r.DestroyKey(seq)
						case c17Cur:
							in = c17In{Kind: c17Cur}
							var v []byte
							var e error
							if ring.pair {
								k, e2 := h.KS.GetServerDecryptionPrivateKey([]byte(ring.client))
								if e2 == nil {
									v = k.Value
								}
								e = e2
							} else {
								v, e = h.KS.GetClientIDSymmetricKey([]byte(ring.client))
							}
							if e != nil {
								if !expectedReadError(e) {
									w.Violate("C17", "reader-sees-valid-ring", "v2/read-current", e.Error())
								}
								return e
							}
							out.Val = string(v)
							return nil
						case c17All:
							in = c17In{Kind: c17All}
							var list [][]byte
							var e error
							if ring.pair {
								ks, e2 := h.KS.GetServerDecryptionPrivateKeys([]byte(ring.client))
								list, e = privs(ks), e2
							} else {
								list, e = h.KS.GetClientIDSymmetricKeys([]byte(ring.client))
							}
							if e != nil {
								if !expectedReadError(e) {
									w.Violate("C17", "reader-sees-valid-ring", "v2/read-all", e.Error())
								}
								return e
							}
							for _, b := range list {
								out.List = append(out.List, string(b))
							}
							return nil
						}
						return fmt.Errorf("unknown op")
					})
					if pv != nil {
						w.Violate("C17", "no-panic", "v2/"+op.Kind, fmt.Sprint(pv))
					}
					out.OK = err == nil
					if err != nil {
						out.Err = err.Error()
						w.Probe("op-failed:" + slug(err))
					}
					w.EndOp(proc, fmt.Sprintf("%+v", out))
					w.State(fmt.Sprintf("%s %s ok=%v seq=%d n=%d", ring.path, in.Kind, out.OK, out.Seq, len(out.List)))
					record(ring.path, proc, in, out, call, w.Res.Steps)
				}
				finished[proc] = true
			}
		}
		w.RunProcs(bodies)
		if w.Deadlock {
			w.Violate("C17", "no-deadlock", "v2", "all live processes are blocked on the store lock")
		} else if !w.Res.Cut {
			for p, f := range finished {
				if !f {
					w.Violate("C17", "all-processes-finish", "v2", fmt.Sprintf("process %d did not finish", p))
				}
			}
		}
		// final state through a fresh handle, appended to the history
		if !w.Res.Cut {
			scratch := kernel.NewWorld(&kernel.Plan{}, false)
			scratch.MaxSteps = 1 << 60
			fh, err := Open(scratch, 0, disk, 0)
			if err != nil {
				w.Violate("C17", "open-succeeds", "v2/final", err.Error())
			} else {
				end := w.Res.Steps + 1
				for _, ring := range rings {
					var list [][]byte
					var e error
					if ring.pair {
						ks, e2 := fh.KS.GetServerDecryptionPrivateKeys([]byte(ring.client))
						list, e = privs(ks), e2
					} else {
						list, e = fh.KS.GetClientIDSymmetricKeys([]byte(ring.client))
					}
					out := c17Out{OK: e == nil}
					for _, b := range list {
						out.List = append(out.List, string(b))
					}
					if e != nil && !expectedReadError(e) {
						w.Violate("C17", "reader-sees-valid-ring", "v2/final-read", e.Error())
					}
					record(ring.path, 99, c17In{Kind: c17All}, out, end, end+1)
					// sequence numbers unique and increasing
					if r, e := fh.V2.OpenKeyRing(ring.path); e == nil {
						seqs, _ := r.AllKeys()
						for i := 1; i < len(seqs); i++ {
							if seqs[i-1] <= seqs[i] {
								w.Violate("C17", "seqnums-unique-increasing", "v2", fmt.Sprintf("%s: seqnums newest-first %v", ring.path, seqs))
							}
						}
						// every successful add is present exactly once
						vals := map[string]int{}
						for _, b := range list {
							vals[string(b)]++
						}
						for _, o := range hist[ring.path] {
							in := o.Input.(c17In)
							if in.Kind == c17Add && o.Output.(c17Out).OK {
								destroyed := false
								for _, d := range hist[ring.path] {
									di := d.Input.(c17In)
									if di.Kind == c17Destroy && d.Output.(c17Out).OK && di.Seq == o.Output.(c17Out).Seq {
										destroyed = true
									}
								}
								if !destroyed && vals[in.Val] != 1 {
									w.Violate("C17", "successful-add-reflected-once", "v2", fmt.Sprintf("%s: key added as seq %d appears %d times in the final ring", ring.path, o.Output.(c17Out).Seq, vals[in.Val]))
								}
							}
						}
					}
					end += 2
				}
			}
		}
		w.Res.SimNanos = int64(time.Since(start))
		w.Res.Trivial = len(plan.Ops) < 4
	})
	// linearizability per ring (outside the bubble: porcupine uses real timers)
	if !w.Res.Cut {
		names := make([]string, 0, len(hist))
		for n := range hist {
			names = append(names, n)
		}
		sort.Strings(names)
		for _, n := range names {
			res := porcupine.CheckOperationsTimeout(c17Model, hist[n], 10*time.Second)
			switch res {
			case porcupine.Illegal:
				var sb bytes.Buffer
				for _, o := range hist[n] {
					fmt.Fprintf(&sb, "[p%d %d-%d %s] ", o.ClientId, o.Call, o.Return, c17Model.DescribeOperation(o.Input, o.Output))
				}
				w.Violate("C17", "linearizable", "v2/ring", fmt.Sprintf("%s: history is not linearizable against the sequential key-ring model: %s", n, sb.String()))
			case porcupine.Unknown:
				w.Probe("porcupine-unknown")
			}
		}
	}
	return w.Finish()
}
