// Package ksw is the keystore world: uniform handles over both keystore
// formats on the simulated disk, the keystore reference model (DESIGN.md
// Appendix B) and the properties that live on it (C06 C07 C08 C17 C18).
package ksw

import (
	"bytes"
	"errors"
	"fmt"
	"runtime"
	"sort"
	"time"

	"github.com/cossacklabs/acra/keystore"
	ksfs "github.com/cossacklabs/acra/keystore/filesystem"
	ksv2 "github.com/cossacklabs/acra/keystore/v2/keystore"
	v2crypto "github.com/cossacklabs/acra/keystore/v2/keystore/crypto"
	v2fs "github.com/cossacklabs/acra/keystore/v2/keystore/filesystem"
	"github.com/cossacklabs/themis/gothemis/keys"

	"verif/sim/kernel"
	"verif/sim/simfs"
)

// Key kinds (the six of C06).
const (
	KStoragePair = "storage-pair"
	KStorageSym  = "storage-sym"
	KHmac        = "hmac"
	KPoisonPair  = "poison-pair"
	KPoisonSym   = "poison-sym"
	KAuditLog    = "audit-log"
)

// AllKinds in a fixed order.
var AllKinds = []string{KStoragePair, KStorageSym, KHmac, KPoisonPair, KPoisonSym, KAuditLog}

// IsPair tells whether the kind is an asymmetric key pair.
func IsPair(kind string) bool { return kind == KStoragePair || kind == KPoisonPair }

// HasClient tells whether keys of this kind belong to a client id.
func HasClient(kind string) bool {
	return kind == KStoragePair || kind == KStorageSym || kind == KHmac
}

// HasReadAll tells whether the keystore API offers an "all keys" read.
func HasReadAll(kind string) bool { return kind != KHmac && kind != KAuditLog }

// HasDestroy tells whether keys of this kind can be destroyed.
func HasDestroy(kind string) bool { return kind != KAuditLog }

// Disk is the shared durable state of one simulated machine.
type Disk struct {
	Format int // 1 or 2
	FS     *simfs.FS
	Store  *simfs.Store
	Master []byte // v1 master key / v2 encryption key
	SigKey []byte // v2 signature key
	// PubRoot, when set, keeps v1 public keys in a directory of their own
	PubRoot string
	nextID  int
}

// Root of the v1 keystore on the simulated disk.
const Root = "/ks"

// NewDisk makes an empty disk for a format.
func NewDisk(format int, rng *kernel.RNG) *Disk {
	d := &Disk{Format: format, Master: rng.Bytes(32), SigKey: rng.Bytes(32)}
	nameRNG := kernel.NewRNG(rng.Uint64(), 0x7e4f)
	if format == 1 {
		d.FS = simfs.New(func() uint32 { return nameRNG.Uint32() })
	} else {
		d.Store = simfs.NewStore()
	}
	return d
}

// Clone copies the durable state.
func (d *Disk) Clone() *Disk {
	c := *d
	if d.FS != nil {
		c.FS = d.FS.Clone()
	}
	if d.Store != nil {
		c.Store = d.Store.Clone()
	}
	return &c
}

// Image is a canonical dump of the durable state.
func (d *Disk) Image() string {
	if d.Format == 1 {
		return d.FS.Image()
	}
	return d.Store.Image()
}

// Handle is one process's open keystore.
type Handle struct {
	Format int
	KS     keystore.ServerKeyStore
	Mk     keystore.KeyMaking
	V1     *ksfs.KeyStore
	V2     *ksv2.ServerKeyStore
	be     *simfs.SimBackend
	Cache  int
}

// Open opens a fresh keystore handle for proc on disk. cache: v1 cache size
// (keystore.WithoutCache = -1? see below), ignored for v2.
func Open(w *kernel.World, proc int, d *Disk, cache int) (*Handle, error) {
	h := &Handle{Format: d.Format, Cache: cache}
	if d.Format == 1 {
		enc, err := keystore.NewSCellKeyEncryptor(d.Master)
		if err != nil {
			return nil, err
		}
		builder := ksfs.NewCustomFilesystemKeyStore().KeyDirectory(Root)
		if d.PubRoot != "" {
			builder = ksfs.NewCustomFilesystemKeyStore().KeyDirectories(Root, d.PubRoot)
		}
		ks, err := builder.Encryptor(enc).
			Storage(&simfs.FaultFS{FS: d.FS, W: w, Proc: proc}).CacheSize(cache).Build()
		if err != nil {
			return nil, err
		}
		h.V1, h.KS, h.Mk = ks, ks, ks
		return h, nil
	}
	suite, err := v2crypto.NewSCellSuite(d.Master, d.SigKey)
	if err != nil {
		return nil, err
	}
	d.nextID++
	h.be = &simfs.SimBackend{S: d.Store, W: w, Proc: proc, ID: d.nextID}
	mks, err := v2fs.CustomKeyStore(h.be, suite)
	if err != nil {
		return nil, err
	}
	// The finalizer would close the back end whenever the collector likes;
	// the simulator decides when a handle dies (DESIGN.md §2.5).
	runtime.SetFinalizer(mks, nil)
	h.V2 = ksv2.NewServerKeyStore(mks)
	h.KS, h.Mk = h.V2, h.V2
	return h, nil
}

// Drop is what the kernel does when the owning process dies: locks held by
// the handle are released, nothing else happens.
func (h *Handle) Drop() {
	if h != nil && h.be != nil {
		h.be.S.ReleaseAll(h.be.ID)
		h.be.W.Progress()
	}
}

// ---------------------------------------------------------------------
// Uniform operations.

// Generate makes a new current key of the kind.
func (h *Handle) Generate(kind string, client []byte) error {
	switch kind {
	case KStoragePair:
		return h.KS.GenerateDataEncryptionKeys(client)
	case KStorageSym:
		return h.KS.GenerateClientIDSymmetricKey(client)
	case KHmac:
		return h.KS.GenerateHmacKey(client)
	case KPoisonPair:
		return h.Mk.GeneratePoisonKeyPair()
	case KPoisonSym:
		return h.Mk.GeneratePoisonSymmetricKey()
	case KAuditLog:
		return h.Mk.GenerateLogKey()
	}
	return fmt.Errorf("unknown kind %q", kind)
}

// KeyVal is a key as the API hands it out: secret part and, for pairs, the
// public part.
type KeyVal struct {
	Secret []byte
	Public []byte
}

func cp(b []byte) []byte { return append([]byte(nil), b...) }

// ReadCurrent reads the current key of the kind.
func (h *Handle) ReadCurrent(kind string, client []byte) (KeyVal, error) {
	switch kind {
	case KStoragePair:
		priv, err := h.KS.GetServerDecryptionPrivateKey(client)
		if err != nil {
			return KeyVal{}, err
		}
		pub, err := h.KS.GetClientIDEncryptionPublicKey(client)
		if err != nil {
			return KeyVal{}, err
		}
		return KeyVal{cp(priv.Value), cp(pub.Value)}, nil
	case KStorageSym:
		k, err := h.KS.GetClientIDSymmetricKey(client)
		return KeyVal{Secret: cp(k)}, err
	case KHmac:
		k, err := h.KS.GetHMACSecretKey(client)
		return KeyVal{Secret: cp(k)}, err
	case KPoisonPair:
		kp, err := h.KS.GetPoisonKeyPair()
		if err != nil {
			return KeyVal{}, err
		}
		return KeyVal{cp(kp.Private.Value), cp(kp.Public.Value)}, nil
	case KPoisonSym:
		k, err := h.KS.GetPoisonSymmetricKey()
		return KeyVal{Secret: cp(k)}, err
	case KAuditLog:
		k, err := h.KS.GetLogSecretKey()
		return KeyVal{Secret: cp(k)}, err
	}
	return KeyVal{}, fmt.Errorf("unknown kind %q", kind)
}

func privs(ks []*keys.PrivateKey) [][]byte {
	out := make([][]byte, len(ks))
	for i, k := range ks {
		out[i] = cp(k.Value)
	}
	return out
}

func cpAll(ks [][]byte) [][]byte {
	out := make([][]byte, len(ks))
	for i, k := range ks {
		out[i] = cp(k)
	}
	return out
}

// ReadAll reads every key offered for decryption, newest first.
func (h *Handle) ReadAll(kind string, client []byte) ([][]byte, error) {
	switch kind {
	case KStoragePair:
		ks, err := h.KS.GetServerDecryptionPrivateKeys(client)
		return privs(ks), err
	case KStorageSym:
		ks, err := h.KS.GetClientIDSymmetricKeys(client)
		return cpAll(ks), err
	case KPoisonPair:
		ks, err := h.KS.GetPoisonPrivateKeys()
		return privs(ks), err
	case KPoisonSym:
		ks, err := h.KS.GetPoisonSymmetricKeys()
		return cpAll(ks), err
	}
	return nil, fmt.Errorf("no read-all for kind %q", kind)
}

// DestroyCurrent destroys the current key of the kind.
func (h *Handle) DestroyCurrent(kind string, client []byte) error {
	switch kind {
	case KStoragePair:
		return h.Mk.DestroyClientIDEncryptionKeyPair(client)
	case KStorageSym:
		return h.Mk.DestroyClientIDSymmetricKey(client)
	case KHmac:
		return h.Mk.DestroyHmacSecretKey(client)
	case KPoisonPair:
		return h.Mk.DestroyPoisonKeyPair()
	case KPoisonSym:
		return h.Mk.DestroyPoisonSymmetricKey()
	}
	return fmt.Errorf("no destroy for kind %q", kind)
}

// DestroyRotated destroys the rotated key shown at listing index idx (>= 2).
func (h *Handle) DestroyRotated(kind string, client []byte, idx int) error {
	switch kind {
	case KStoragePair:
		return h.Mk.DestroyRotatedClientIDEncryptionKeyPair(client, idx)
	case KStorageSym:
		return h.Mk.DestroyRotatedClientIDSymmetricKey(client, idx)
	case KHmac:
		return h.Mk.DestroyRotatedHmacSecretKey(client, idx)
	case KPoisonPair:
		return h.Mk.DestroyRotatedPoisonKeyPair(idx)
	case KPoisonSym:
		return h.Mk.DestroyRotatedPoisonSymmetricKey(idx)
	}
	return fmt.Errorf("no destroy-rotated for kind %q", kind)
}

// Listed is one listing entry mapped onto (kind, client).
type Listed struct {
	Kind   string
	Client string
	Index  int
	Time   time.Time
	Public bool // v1 lists the public half of a pair as a separate entry
	Raw    keystore.KeyDescription
}

// classify maps a key description of either format onto a kind.
func classify(format int, d keystore.KeyDescription) (kind string, public bool, ok bool) {
	switch d.Purpose {
	case keystore.PurposeSearchHMAC, ksv2.PurposeSearchHMAC:
		return KHmac, false, true
	case keystore.PurposeAuditLog, ksv2.PurposeAuditLog:
		return KAuditLog, false, true
	case keystore.PurposePoisonRecordSymmetricKey, ksv2.PurposePoisonSym, "poison-record-sym":
		return KPoisonSym, false, true
	case keystore.PurposeStorageClientSymmetricKey, ksv2.PurposeStorageClientSym:
		return KStorageSym, false, true
	case keystore.PurposePoisonRecordKeyPair, ksv2.PurposePoisonRecord, "poison-record":
		return KPoisonPair, d.KeyID == "poison_key.pub", true
	case keystore.PurposeStorageClientKeyPair, keystore.PurposeStorageClientPrivateKey, ksv2.PurposeStorageClient:
		return KStoragePair, false, true
	case keystore.PurposeStorageClientPublicKey:
		return KStoragePair, true, true
	}
	return "", false, false
}

func mapListing(format int, ds []keystore.KeyDescription) ([]Listed, error) {
	out := make([]Listed, 0, len(ds))
	for _, d := range ds {
		kind, pub, ok := classify(format, d)
		if !ok {
			return nil, fmt.Errorf("listing entry with unknown purpose %q (id %q)", d.Purpose, d.KeyID)
		}
		l := Listed{Kind: kind, Client: d.ClientID, Index: d.Index, Public: pub, Raw: d}
		if d.CreationTime != nil {
			l.Time = *d.CreationTime
		}
		if format == 2 && HasClient(kind) {
			if c := clientOfV2(d.KeyID); c != "" {
				l.Client = c
			}
		}
		out = append(out, l)
	}
	return out, nil
}

// ListCurrent is ListKeys mapped onto kinds.
func (h *Handle) ListCurrent() ([]Listed, error) {
	ds, err := h.KS.ListKeys()
	if err != nil {
		return nil, err
	}
	return mapListing(h.Format, ds)
}

// ListRotated is ListRotatedKeys mapped onto kinds.
func (h *Handle) ListRotated() ([]Listed, error) {
	ds, err := h.KS.ListRotatedKeys()
	if err != nil {
		return nil, err
	}
	return mapListing(h.Format, ds)
}

// Reset clears the key cache (v1) / does nothing (v2).
func (h *Handle) Reset() { h.KS.Reset() }

// ---------------------------------------------------------------------
// helpers shared by the properties

var errPanic = errors.New("panic")

// Guard runs f, turning a Go panic (not a simulated crash) into an error
// that carries the panic value, so oracles can report it.
func Guard(f func() error) (err error, panicVal any) {
	defer func() {
		if r := recover(); r != nil {
			switch r.(type) {
			case kernel.CrashSignal, kernel.CutSignal:
				panic(r)
			}
			err, panicVal = errPanic, r
		}
	}()
	return f(), nil
}

func hexs(bs [][]byte) string {
	var sb bytes.Buffer
	for i, b := range bs {
		if i > 0 {
			sb.WriteByte(',')
		}
		if len(b) > 6 {
			fmt.Fprintf(&sb, "%x..", b[len(b)-6:])
		} else {
			fmt.Fprintf(&sb, "%x", b)
		}
	}
	return sb.String()
}

func sortedStrings(m map[string]struct{}) []string {
	out := make([]string, 0, len(m))
	for k := range m {
		out = append(out, k)
	}
	sort.Strings(out)
	return out
}
