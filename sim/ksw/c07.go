package ksw

import (
	"bytes"
	"fmt"
	"os"
	"path/filepath"
	"runtime"
	"sort"
	"strings"
	"testing"
	"time"

	ksv2 "github.com/cossacklabs/acra/keystore/v2/keystore"
	v2crypto "github.com/cossacklabs/acra/keystore/v2/keystore/crypto"
	v2fs "github.com/cossacklabs/acra/keystore/v2/keystore/filesystem"
	"github.com/cossacklabs/acra/keystore/v2/keystore/filesystem/backend"

	"verif/sim/kernel"
)

// C07 — keys at rest are encrypted, owner-bound, tamper-evident, confined.
//
// A C06-style history runs with every byte written to the simulated disk
// recorded. Afterwards the disk is attacked (storage faults at rest): stored
// key files/rings of one identity are copied over another identity's, every
// byte of every stored ring/private key file is modified, and operations are
// issued with hostile client ids. Part 2 runs the hostile ids against the
// real directory back end in a scratch directory with a sentinel parent.
type C07 struct{}

func (C07) ID() string { return "C07" }

var evilIDs = []string{
	"../escape_one", "../../escape_two", "/abs_escape", "a/../../escape_three", "..", "ok_id/../../escape_four",
	"..\\escape_five", "nul\x00escape", "client/../../../escape_six", "valid_client_1",
	// siblings whose name starts with the root's name ("/ks", ".../keystore")
	"../ks-evil/x", "../ksX", "../keystore-evil/x", "../keystoreX", "../../keystore-backup/mallory", "../../b/keystore2/x",
}

func (C07) Explore(x *kernel.Explorer, seed uint64) {
	r := kernel.NewRNG(seed, 0xc07)
	for i := 0; i < 3 && !x.Expired(); i++ {
		format := 1 + r.Intn(2)
		plan := &kernel.Plan{Prop: "C07", Seed: kernel.Mix(seed, uint64(i)), Swarm: map[string]int64{
			"format": int64(format), "cache": cacheChoices[r.Intn(len(cacheChoices))]}}
		id := 0
		plan.Ops = genHistory(r, format, 4+r.Intn(12), &id)
		// make sure two identities hold keys of the same kinds (owner-binding matrix)
		for _, kind := range []string{KStoragePair, KStorageSym, KHmac} {
			for _, c := range []string{"client_alpha", "client-beta"} {
				if r.Chance(3, 4) {
					id++
					plan.Ops = append(plan.Ops, kernel.Op{ID: id, Kind: OGen, S: []string{kind, c}, A: []int64{0, drawClock(r, format)}})
				}
			}
		}
		// two long identities that differ only near the end (contexts and paths built from long ids)
		if r.Chance(1, 2) {
			long := strings.Repeat("long-client-id_", 7)[:100]
			for _, kind := range []string{KStoragePair, KStorageSym, KHmac} {
				for _, c := range []string{long + "-first", long + "-second"} {
					if r.Chance(3, 4) {
						id++
						plan.Ops = append(plan.Ops, kernel.Op{ID: id, Kind: OGen, S: []string{kind, c}, A: []int64{0, drawClock(r, format)}})
					}
				}
			}
		}
		// hostile client ids
		for j := 0; j < 3+r.Intn(5); j++ {
			id++
			plan.Ops = append(plan.Ops, kernel.Op{ID: id, Kind: "evil", S: []string{AllKinds[r.Intn(3)], evilIDs[r.Intn(len(evilIDs))]},
				A: []int64{int64(r.Intn(4)), drawClock(r, format)}})
		}
		x.Exec(plan)
	}
	if !x.Expired() {
		plan := &kernel.Plan{Prop: "C07", Seed: kernel.Mix(seed, 0xd1), Swarm: map[string]int64{"part": 2}}
		id := 0
		for j := 0; j < 6; j++ {
			id++
			plan.Ops = append(plan.Ops, kernel.Op{ID: id, Kind: "evil", S: []string{AllKinds[r.Intn(3)], evilIDs[r.Intn(len(evilIDs))]},
				A: []int64{int64(r.Intn(6)), 0}})
		}
		x.Exec(plan)
	}
}

func (C07) Run(t *testing.T, plan *kernel.Plan, keepLog bool) *kernel.Result {
	if plan.Sw("part") == 2 {
		return runC07RealDir(t, plan, keepLog)
	}
	w := kernel.NewWorld(plan, keepLog)
	bubble(t, plan.Seed, func() {
		start := time.Now()
		rng := kernel.NewRNG(plan.Seed, 0xd15c)
		format := int(plan.Sw("format"))
		if format != 2 {
			format = 1
		}
		disk := NewDisk(format, rng)
		if disk.FS != nil {
			disk.FS.Record = true
		} else {
			disk.Store.Record = true
		}
		model := NewModel()
		s, err := NewSession(w, "C07", 0, disk, model, int(plan.Sw("cache")))
		if err != nil {
			w.Violate("C07", "open-succeeds", fmt.Sprintf("v%d", format), err.Error())
			return
		}
		// the history is judged by C06's rules only as foreign observations
		s.Prop = "C06"
		_, cut, pv := kernel.Protect(func() {
			for _, op := range plan.Ops {
				clockStep(op.Arg(1, 1))
				if op.Kind == "evil" {
					c07Evil(w, s, op)
					continue
				}
				s.Step(op)
			}
		})
		if cut {
			w.Res.Cut = true
			return
		}
		if pv != nil {
			w.Violate("C07", "no-panic", fmt.Sprintf("v%d/harness", format), fmt.Sprint(pv))
			return
		}
		c07Confinement(w, disk)
		c07NoSecretInClear(w, s, disk, model)
		c07Modes(w, disk)
		c07OwnerBinding(w, disk, model)
		c07Tamper(w, disk, model)
		c07TamperHistory(w, disk, model)
		w.Res.SimNanos = int64(time.Since(start))
		w.Res.Trivial = len(model.Rings) < 1
	})
	return w.Finish()
}

// c07Evil issues one keystore call with a hostile client id. Whether the call
// fails is irrelevant; where it reads and writes is what is observed.
func c07Evil(w *kernel.World, s *Session, op kernel.Op) {
	kind, id := op.Str(0), []byte(op.Str(1))
	w.BeginOp(0, op)
	_, pv := Guard(func() error {
		switch op.Arg(0, 0) {
		case 0:
			return s.H.Generate(kind, id)
		case 1:
			_, e := s.H.ReadCurrent(kind, id)
			return e
		case 2:
			if HasReadAll(kind) {
				_, e := s.H.ReadAll(kind, id)
				return e
			}
			_, e := s.H.ReadCurrent(kind, id)
			return e
		default:
			return s.H.DestroyCurrent(kind, id)
		}
	})
	if pv != nil {
		w.Violate("C07", "no-panic", fmt.Sprintf("v%d/evil-id", s.Disk.Format), fmt.Sprint(pv))
	}
	w.EndOp(0, "evil")
	w.Probe("hostile-id-call")
}

func c07Confinement(w *kernel.World, d *Disk) {
	if d.Format == 1 {
		for _, p := range sortedStrings(d.FS.Touched) {
			if p != Root && !strings.HasPrefix(p, Root+"/") {
				w.Violate("C07", "confined-to-root", "v1", fmt.Sprintf("keystore touched %q outside its root %s", p, Root))
				return
			}
		}
		return
	}
	// keystore v2: confinement is the back end's duty (key path -> OS path);
	// it is checked on the real directory back end in part 2.
}

func windows(secret []byte) [][]byte {
	if len(secret) < 16 {
		return [][]byte{secret}
	}
	return [][]byte{secret[:16], secret[len(secret)/2-8 : len(secret)/2+8], secret[len(secret)-16:]}
}

func c07NoSecretInClear(w *kernel.World, s *Session, d *Disk, m *Model) {
	var blobs [][]byte
	var names []string
	if d.Format == 1 {
		for i, b := range d.FS.Writes {
			blobs = append(blobs, b)
			names = append(names, fmt.Sprintf("write#%d", i))
		}
		for _, p := range d.FS.Paths() {
			b, _, _ := d.FS.Peek(p)
			blobs = append(blobs, b)
			names = append(names, "file "+p)
		}
		// cache entries of the v1 keystore under the names it uses
		if s.H.V1 != nil {
			for _, id := range m.RingIDs() {
				r := m.Rings[id]
				for _, cacheKey := range []string{r.Client + "_storage", r.Client + "_storage_sym", r.Client + "_hmac",
					".poison_key/poison_key", ".poison_key/poison_key_sym", "secure_log_key"} {
					if v, ok := s.H.V1.Get(cacheKey); ok && v != nil {
						blobs = append(blobs, v)
						names = append(names, "cache "+cacheKey)
					}
				}
			}
		}
	} else {
		for i, b := range d.Store.Writes {
			blobs = append(blobs, b)
			names = append(names, fmt.Sprintf("put#%d", i))
		}
		for _, p := range d.Store.Paths() {
			blobs = append(blobs, d.Store.Data[p])
			names = append(names, "path "+p)
		}
	}
	secretsToFind := [][]byte{d.Master}
	labels := []string{"master key"}
	for _, id := range m.RingIDs() {
		for _, k := range m.Rings[id].Keys {
			secretsToFind = append(secretsToFind, k.Val.Secret)
			labels = append(labels, fmt.Sprintf("%s key #%d", id, k.N))
		}
	}
	w.Res.Extra["bytes_scanned"] += int64(len(blobs))
	for i, sec := range secretsToFind {
		if len(sec) < 16 {
			continue
		}
		for _, win := range windows(sec) {
			for j, b := range blobs {
				if bytes.Contains(b, win) {
					w.Violate("C07", "no-secret-in-clear", fmt.Sprintf("v%d", d.Format), fmt.Sprintf("%s appears in clear in %s", labels[i], names[j]))
					return
				}
			}
		}
	}
}

func c07Modes(w *kernel.World, d *Disk) {
	if d.Format != 1 {
		return
	}
	for _, p := range d.FS.Dirs() {
		if p == "/" {
			continue
		}
		if m, _ := d.FS.DirMode(p); m.Perm() != 0o700 {
			w.Violate("C07", "private-modes", "v1/dir", fmt.Sprintf("directory %s has mode %o", p, m.Perm()))
			return
		}
	}
	for _, p := range d.FS.Paths() {
		if strings.HasSuffix(p, ".pub") || strings.Contains(p, ".pub.old/") {
			continue
		}
		if _, m, _ := d.FS.Peek(p); m.Perm() != 0o600 {
			w.Violate("C07", "private-modes", "v1/file", fmt.Sprintf("private key file %s has mode %o", p, m.Perm()))
			return
		}
	}
}

// at-rest location of the current key of a ring (what an attacker with disk
// access sees; documented keystore layout)
func c07Location(d *Disk, kind, client string) string {
	if d.Format == 1 {
		switch kind {
		case KStoragePair:
			return Root + "/" + client + "_storage"
		case KStorageSym:
			return Root + "/" + client + "_storage_sym"
		case KHmac:
			return Root + "/" + client + "_hmac"
		case KPoisonPair:
			return Root + "/.poison_key/poison_key"
		case KPoisonSym:
			return Root + "/.poison_key/poison_key_sym"
		case KAuditLog:
			return Root + "/secure_log_key"
		}
		return ""
	}
	switch kind {
	case KStoragePair:
		return "client/" + client + "/storage.keyring"
	case KStorageSym:
		return "client/" + client + "/storage-sym.keyring"
	case KHmac:
		return "client/" + client + "/hmac-sym.keyring"
	case KPoisonPair:
		return "poison-record.keyring"
	case KPoisonSym:
		return "poison-record-sym.keyring"
	case KAuditLog:
		return "audit-log.keyring"
	}
	return ""
}

func diskGet(d *Disk, loc string) ([]byte, bool) {
	if d.Format == 1 {
		b, _, ok := d.FS.Peek(loc)
		return append([]byte(nil), b...), ok
	}
	b, ok := d.Store.Data[loc]
	return append([]byte(nil), b...), ok
}

func diskSet(d *Disk, loc string, b []byte) {
	if d.Format == 1 {
		d.FS.Poke(loc, b)
		return
	}
	d.Store.Data[loc] = append([]byte(nil), b...)
}

func freshObserver(d *Disk) *Handle {
	scratch := kernel.NewWorld(&kernel.Plan{}, false)
	scratch.MaxSteps = 1 << 60
	h, err := Open(scratch, 0, d, -1)
	if err != nil {
		panic(fmt.Sprintf("observer open: %v", err))
	}
	return h
}

// c07OwnerBinding copies the stored current key of identity A over the one of
// identity B (same kind) and loads B's key: it must fail, never yield A's key.
func c07OwnerBinding(w *kernel.World, d *Disk, m *Model) {
	ids := m.RingIDs()
	for _, a := range ids {
		for _, b := range ids {
			ra, rb := m.Rings[a], m.Rings[b]
			if a == b || ra.Kind != rb.Kind || !HasClient(ra.Kind) || ra.Client == rb.Client {
				continue
			}
			if ra.Newest() == nil || rb.Newest() == nil || !ra.Newest().Alive || !rb.Newest().Alive {
				continue
			}
			la, lb := c07Location(d, ra.Kind, ra.Client), c07Location(d, rb.Kind, rb.Client)
			da, okA := diskGet(d, la)
			db, okB := diskGet(d, lb)
			if !okA || !okB {
				continue
			}
			diskSet(d, lb, da)
			h := freshObserver(d)
			var got KeyVal
			err, pv := Guard(func() error { var e error; got, e = h.ReadCurrent(rb.Kind, []byte(rb.Client)); return e })
			if err != nil && pv == nil && d.Format == 2 && rb.Kind == KStoragePair {
				// a copied ring must not load at all: the public half is in it too
				err, pv = Guard(func() error {
					pk, e := h.KS.GetClientIDEncryptionPublicKey([]byte(rb.Client))
					if e == nil {
						got = KeyVal{Secret: ra.Newest().Val.Secret, Public: pk.Value}
					}
					return e
				})
			}
			diskSet(d, lb, db)
			w.Probe("owner-swap")
			if pv != nil {
				w.Violate("C07", "no-panic", fmt.Sprintf("v%d/owner-swap", d.Format), fmt.Sprint(pv))
				return
			}
			if err == nil {
				what := "a key"
				if bytes.Equal(got.Secret, ra.Newest().Val.Secret) {
					what = "the other identity's key"
				}
				w.Violate("C07", "owner-bound", fmt.Sprintf("v%d/%s", d.Format, shape(ra.Kind)), fmt.Sprintf("stored %s key of %q copied over that of %q loads as %s", ra.Kind, ra.Client, rb.Client, what))
				return
			}
		}
	}
}

// c07Tamper modifies every byte of every stored key ring (v2) / private or
// symmetric key file (v1) and reads the key: the read must fail.
func c07Tamper(w *kernel.World, d *Disk, m *Model) {
	for _, id := range m.RingIDs() {
		r := m.Rings[id]
		if r.Newest() == nil || !r.Newest().Alive {
			continue
		}
		loc := c07Location(d, r.Kind, r.Client)
		orig, ok := diskGet(d, loc)
		if !ok || len(orig) > 4096 {
			continue
		}
		for pos := 0; pos < len(orig); pos++ {
			for _, x := range []byte{0x01, 0xff} {
				mod := append([]byte(nil), orig...)
				mod[pos] ^= x
				diskSet(d, loc, mod)
				h := freshObserver(d)
				var got KeyVal
				err, pv := Guard(func() error { var e error; got, e = h.ReadCurrent(r.Kind, []byte(r.Client)); return e })
				w.Res.Extra["tamper_mutations"]++
				if pv != nil {
					diskSet(d, loc, orig)
					w.Violate("C07", "no-panic", fmt.Sprintf("v%d/tamper", d.Format), fmt.Sprintf("%s byte %d: %v", loc, pos, pv))
					return
				}
				if err == nil {
					diskSet(d, loc, orig)
					same := bytes.Equal(got.Secret, r.Newest().Val.Secret)
					w.Violate("C07", "tamper-evident", fmt.Sprintf("v%d/%s", d.Format, shape(r.Kind)), fmt.Sprintf("%s: byte %d of %d xor %02x is not detected when the key is read (same key returned: %v)", loc, pos, len(orig), x, same))
					return
				}
			}
		}
		diskSet(d, loc, orig)
	}
}

// c07TamperHistory (v1): a rotated key lives in a file of its own under <key>.old/. A byte of such a file is
// flipped and all keys of the kind are read: the read must fail, not hand out the remaining keys as if they were all.
func c07TamperHistory(w *kernel.World, d *Disk, m *Model) {
	if d.Format != 1 {
		return
	}
	for _, id := range m.RingIDs() {
		r := m.Rings[id]
		switch r.Kind {
		case KStorageSym, KPoisonSym, KStoragePair, KPoisonPair:
		default:
			continue
		}
		if r.Newest() == nil || !r.Newest().Alive {
			continue
		}
		prefix := c07Location(d, r.Kind, r.Client) + ".old/"
		var hist []string
		for _, p := range d.FS.Paths() {
			if strings.HasPrefix(p, prefix) {
				hist = append(hist, p)
			}
		}
		sort.Strings(hist)
		if len(hist) == 0 {
			continue
		}
		loc := hist[len(hist)/2]
		orig, ok := diskGet(d, loc)
		if !ok || len(orig) == 0 {
			continue
		}
		for _, pos := range []int{0, len(orig) / 2, len(orig) - 1} {
			mod := append([]byte(nil), orig...)
			mod[pos] ^= 0x01
			diskSet(d, loc, mod)
			h := freshObserver(d)
			var got [][]byte
			err, pv := Guard(func() error { var e error; got, e = h.ReadAll(r.Kind, []byte(r.Client)); return e })
			w.Res.Extra["tamper_mutations"]++
			diskSet(d, loc, orig)
			if pv != nil {
				w.Violate("C07", "no-panic", "v1/tamper", fmt.Sprintf("%s byte %d: %v", loc, pos, pv))
				return
			}
			if err == nil {
				w.Violate("C07", "tamper-evident", "v1/"+shape(r.Kind)+"/rotated", fmt.Sprintf("%s: byte %d of %d flipped is not detected when all keys are read (%d keys returned, %d history files)", loc, pos, len(orig), len(got), len(hist)))
				return
			}
		}
		w.Probe("rotated-key-file-tampered")
	}
}

// runC07RealDir: hostile ids against the real DirectoryBackend on the real
// filesystem, inside a scratch directory with a sentinel parent.
func runC07RealDir(t *testing.T, plan *kernel.Plan, keepLog bool) *kernel.Result {
	w := kernel.NewWorld(plan, keepLog)
	bubble(t, plan.Seed, func() {
		parent, err := os.MkdirTemp("", "verif-c07-")
		if err != nil {
			panic(err)
		}
		defer os.RemoveAll(parent)
		root := filepath.Join(parent, "sentinel", "a", "b", "keystore")
		if err := os.MkdirAll(filepath.Dir(root), 0o700); err != nil {
			panic(err)
		}
		be, err := backend.CreateDirectoryBackend(root)
		if err != nil {
			w.Violate("C07", "open-succeeds", "v2/dir", err.Error())
			return
		}
		rng := kernel.NewRNG(plan.Seed, 0x7ea1)
		suite, err := v2crypto.NewSCellSuite(rng.Bytes(32), rng.Bytes(32))
		if err != nil {
			panic(err)
		}
		mks, err := v2fs.CustomKeyStore(be, suite)
		if err != nil {
			panic(err)
		}
		runtime.SetFinalizer(mks, nil)
		defer mks.Close()
		ks := ksv2.NewServerKeyStore(mks)
		h := &Handle{Format: 2, KS: ks, Mk: ks, V2: ks}
		for _, op := range plan.Ops {
			w.BeginOp(0, op)
			kind, id := op.Str(0), []byte(op.Str(1))
			_, pv := Guard(func() error {
				switch op.Arg(0, 0) {
				case 0:
					return h.Generate(kind, id)
				case 1:
					_, e := h.ReadCurrent(kind, id)
					return e
				case 2:
					return h.DestroyCurrent(kind, id)
				case 3:
					return be.Put(op.Str(1)+".keyring", []byte("x"))
				case 4:
					_, e := be.Get(op.Str(1))
					return e
				default:
					return be.Rename("version", op.Str(1))
				}
			})
			if pv != nil {
				w.Violate("C07", "no-panic", "v2/dir/evil-id", fmt.Sprint(pv))
			}
			w.EndOp(0, "evil")
			w.Probe("hostile-id-call-real-dir")
		}
		// anything created outside the root (but inside the sentinel parent)?
		_ = filepath.Walk(parent, func(p string, info os.FileInfo, err error) error {
			if err != nil {
				return nil
			}
			if p == parent || strings.HasPrefix(root, p) || p == root || strings.HasPrefix(p, root+string(os.PathSeparator)) {
				return nil
			}
			w.Violate("C07", "confined-to-root", "v2/dir", fmt.Sprintf("directory back end created %q outside its root", strings.TrimPrefix(p, parent)))
			return filepath.SkipAll
		})
		w.Res.Trivial = false
	})
	return w.Finish()
}
