package ksw

import (
	"bytes"
	"encoding/json"
	"os"
	"path/filepath"
	"strings"

	"fmt"
	acrakeys "github.com/cossacklabs/acra/cmd/acra-keys/keys"
	"testing"
	"time"

	"github.com/cossacklabs/acra/keystore"
	ksfs "github.com/cossacklabs/acra/keystore/filesystem"
	ksv2 "github.com/cossacklabs/acra/keystore/v2/keystore"

	"verif/sim/kernel"
	"verif/sim/simfs"
)

// C18 — exported keys import to an identical keystore and stay confidential
// in transit. Source keystore with a C06-style history, target keystore with
// another master key (empty or holding another identity's keys); export with a
// drawn selection and mode through the KeyBackuper of the format, scan the
// bundle, import, compare; then the bundle and the access keys are modified
// byte by byte (transport/storage fault) and each modified bundle is imported
// into a copy of the target, which must reject it and stay byte-identical.
type C18 struct{}

func (C18) ID() string { return "C18" }

func (C18) Explore(x *kernel.Explorer, seed uint64) {
	r := kernel.NewRNG(seed, 0xc18)
	for i := 0; i < 3 && !x.Expired(); i++ {
		format := 1 + r.Intn(2)
		// unambiguous export configurations (DESIGN.md §4 C18):
		//  v1: everything (no ids, mode all) | explicit ids private | explicit ids public
		//  v2: explicit ids private | explicit ids public | all rings (mode all: only public parts are asserted)
		cfg := r.Intn(3)
		mode, sel := int64(keystore.ExportAllKeys), int64(0)
		switch {
		case cfg == 1:
			mode, sel = int64(keystore.ExportPrivateKeys), 1
		case cfg == 2:
			mode, sel = int64(keystore.ExportPublicOnly), 1
		}
		plan := &kernel.Plan{Prop: "C18", Seed: kernel.Mix(seed, uint64(i)), Swarm: map[string]int64{
			"format": int64(format), "cache": -1, "mode": mode, "select": sel,
			"nonempty": int64(r.Intn(2)), "pubdir": int64(r.Intn(3) / 2),
			"selmask": int64(r.Intn(1 << 12)),
			"migrate": int64(r.Intn(4) / 3),
		}}
		id := 0
		n := 2 + r.Intn(10)
		for j := 0; j < n; j++ {
			id++
			kind := AllKinds[r.Intn(len(AllKinds))]
			opk := OGen
			if r.Chance(1, 6) {
				opk = ODRot
			} else if r.Chance(1, 12) {
				opk = ODCur
			}
			plan.Ops = append(plan.Ops, kernel.Op{ID: id, Kind: opk, S: []string{kind, clientPool[r.Intn(2)]}, A: []int64{int64(r.Intn(4)), drawClock(r, format)}})
		}
		x.Exec(plan)
	}
}

type backuper interface {
	Export(exportIDs []keystore.ExportID, mode keystore.ExportMode) (*keystore.KeysBackup, error)
	Import(*keystore.KeysBackup) ([]keystore.KeyDescription, error)
}

func newBackuper(d *Disk, h *Handle) (backuper, error) {
	if d.Format == 1 {
		enc, err := keystore.NewSCellKeyEncryptor(d.Master)
		if err != nil {
			return nil, err
		}
		scratch := kernel.NewWorld(&kernel.Plan{}, false)
		scratch.MaxSteps = 1 << 60
		pub := Root
		if d.PubRoot != "" {
			pub = d.PubRoot
		}
		return ksfs.NewKeyBackuper(Root, pub, &simfs.FaultFS{FS: d.FS, W: scratch}, enc, h.KS)
	}
	return ksv2.NewKeyBackuper(Root, "", h.V2)
}

// exportIDsFor turns a ring of the model into export ids of the given mode.
func exportIDsFor(format int, r *MRing, mode keystore.ExportMode) []keystore.ExportID {
	cid := []byte(r.Client)
	pub := mode == keystore.ExportPublicOnly
	switch r.Kind {
	case KStoragePair:
		if pub {
			return []keystore.ExportID{{KeyKind: keystore.KeyStoragePublic, ContextID: cid}}
		}
		if format == 2 { // one id names the whole ring
			return []keystore.ExportID{{KeyKind: keystore.KeyStoragePrivate, ContextID: cid}}
		}
		return []keystore.ExportID{{KeyKind: keystore.KeyStoragePrivate, ContextID: cid}, {KeyKind: keystore.KeyStoragePublic, ContextID: cid}}
	case KPoisonPair:
		if pub {
			return []keystore.ExportID{{KeyKind: keystore.KeyPoisonPublic}}
		}
		if format == 2 {
			return []keystore.ExportID{{KeyKind: keystore.KeyPoisonPrivate}}
		}
		return []keystore.ExportID{{KeyKind: keystore.KeyPoisonPrivate}, {KeyKind: keystore.KeyPoisonPublic}}
	case KStorageSym:
		if pub {
			return nil
		}
		return []keystore.ExportID{{KeyKind: keystore.KeySymmetric, ContextID: cid}}
	case KHmac:
		if pub {
			return nil
		}
		return []keystore.ExportID{{KeyKind: keystore.KeySearch, ContextID: cid}}
	case KPoisonSym:
		if pub || format == 1 { // v1 has no export id for the poison symmetric key
			return nil
		}
		return []keystore.ExportID{{KeyKind: keystore.KeyPoisonSymmetric}}
	}
	return nil
}

func (C18) Run(t *testing.T, plan *kernel.Plan, keepLog bool) *kernel.Result {
	w := kernel.NewWorld(plan, keepLog)
	bubble(t, plan.Seed, func() {
		start := time.Now()
		rng := kernel.NewRNG(plan.Seed, 0xd18c)
		format := int(plan.Sw("format"))
		if format != 2 {
			format = 1
		}
		fm := fmt.Sprintf("v%d", format)
		src := NewDisk(format, rng)
		if plan.Sw("pubdir") == 1 && format == 1 {
			src.PubRoot = "/kspub"
			_ = src.FS.MkdirAll("/kspub", 0o700) // an operator creates both directories
		}
		model := NewModel()
		s, err := NewSession(w, "C06", 0, src, model, -1)
		if err != nil {
			w.Violate("C18", "open-succeeds", fm, err.Error())
			return
		}
		_, cut, pv := kernel.Protect(func() {
			for _, op := range plan.Ops {
				clockStep(op.Arg(1, 1))
				s.Step(op)
			}
		})
		if cut || pv != nil {
			w.Res.Cut = true
			return
		}
		if s.modelEmpty() {
			w.Res.Trivial = true
			return
		}
		if plan.Sw("migrate") == 1 && format == 1 {
			c18Migrate(w, s, model, rng)
			w.State("v1->v2 migration")
			w.Res.SimNanos = int64(time.Since(start))
			return
		}
		tgt := NewDisk(format, rng)
		tgt.PubRoot = src.PubRoot
		if tgt.PubRoot != "" {
			_ = tgt.FS.MkdirAll(tgt.PubRoot, 0o700)
		}
		tgtModel := NewModel()
		ts, err := NewSession(w, "C06", 0, tgt, tgtModel, -1)
		if err != nil {
			w.Violate("C18", "open-succeeds", fm+"/target", err.Error())
			return
		}
		if plan.Sw("nonempty") == 1 {
			for _, kind := range []string{KStoragePair, KStorageSym, KHmac} {
				time.Sleep(time.Second)
				ts.Step(kernel.Op{ID: 9000, Kind: OGen, S: []string{kind, "zeta12345"}, A: []int64{0, 1}})
			}
		}
		mode := keystore.ExportMode(plan.Sw("mode"))
		// selection
		var ids []keystore.ExportID
		selected := map[string]bool{}
		explicit := plan.Sw("select") != 0
		for i, id := range model.RingIDs() {
			r := model.Rings[id]
			if len(r.Keys) == 0 {
				continue
			}
			if !explicit {
				selected[id] = true
				continue
			}
			if plan.Sw("selmask")>>(uint(i)%12)&1 == 1 && r.Newest().Alive {
				e := exportIDsFor(format, r, mode)
				if len(e) > 0 {
					ids = append(ids, e...)
					selected[id] = true
				}
			}
		}
		if explicit && len(ids) == 0 {
			w.Res.Trivial = true
			return
		}
		site := fmt.Sprintf("%s/mode%d/ids=%v", fm, mode, explicit)
		sb, err := newBackuper(src, s.H)
		if err != nil {
			w.Violate("C18", "export-succeeds", site, err.Error())
			return
		}
		var backup *keystore.KeysBackup
		err, pv = Guard(func() error { var e error; backup, e = sb.Export(ids, mode); return e })
		if pv != nil {
			w.Violate("C18", "no-panic", site+"/export", fmt.Sprint(pv))
			return
		}
		if err != nil {
			// an export of keys that exist must work (fault-free world)
			w.Violate("C18", "export-succeeds", site+":"+slug(err), fmt.Sprintf("export of %d ids failed: %v", len(ids), err))
			return
		}
		w.Probe("export-ok")
		// --- confidentiality of the bundle
		for _, id := range model.RingIDs() {
			for _, k := range model.Rings[id].Keys {
				for _, win := range windows(k.Val.Secret) {
					if len(win) >= 16 && bytes.Contains(backup.Data, win) {
						w.Violate("C18", "bundle-confidential", fm, fmt.Sprintf("bundle contains %s key #%d in clear", id, k.N))
						return
					}
				}
			}
		}
		// the bundle travels through files, as acra-keys export writes them; the
		// files already hold a larger, older bundle (operators re-use file names)
		if fb, err := c18ThroughFiles(backup, plan.Seed); err != nil {
			w.Violate("C18", "bundle-file-roundtrip", fm, err.Error())
			return
		} else {
			backup = fb
		}
		pre := tgt.Clone()
		tb, err := newBackuper(tgt, ts.H)
		if err != nil {
			w.Violate("C18", "import-succeeds", site, err.Error())
			return
		}
		bcopy := &keystore.KeysBackup{Keys: cp(backup.Keys), Data: cp(backup.Data)}
		err, pv = Guard(func() error { _, e := tb.Import(bcopy); return e })
		if pv != nil {
			w.Violate("C18", "no-panic", site+"/import", fmt.Sprint(pv))
			return
		}
		if err != nil {
			w.Violate("C18", "import-succeeds", site+":"+slug(err), fmt.Sprintf("import of an untouched bundle failed: %v", err))
			return
		}
		w.Probe("import-ok")
		// --- identical keys on the target
		th := freshObserver(tgt)
		for _, id := range model.RingIDs() {
			r := model.Rings[id]
			if len(r.Keys) == 0 {
				continue
			}
			cid := []byte(r.Client)
			if !selected[id] {
				// unselected keys stay absent (only meaningful for explicit selections)
				if explicit {
					if v, e := th.ReadCurrent(r.Kind, cid); e == nil && r.Newest().Alive && bytes.Equal(v.Secret, r.Newest().Val.Secret) {
						w.Violate("C18", "unselected-absent", site, fmt.Sprintf("%s was not selected but is available on the target", id))
					}
				}
				continue
			}
			newest := r.Newest()
			publicOnly := mode == keystore.ExportPublicOnly || (format == 2 && !explicit)
			if publicOnly {
				// (the poison pair offers no way to read its public half alone)
				if r.Kind == KStoragePair && newest.Alive {
					got, e := c18Public(th, r)
					if e != nil || !bytes.Equal(got, newest.Val.Public) {
						w.Violate("C18", "imported-keys-identical", site+"/"+shape(r.Kind), fmt.Sprintf("%s: public key on the target differs (err=%v)", id, e))
					}
					if v, e := th.ReadCurrent(r.Kind, cid); mode == keystore.ExportPublicOnly && e == nil && bytes.Equal(v.Secret, newest.Val.Secret) {
						w.Violate("C18", "public-only-export-has-no-private", site, fmt.Sprintf("%s: private key arrived with a public-only export", id))
					}
				}
				continue
			}
			if newest.Alive {
				v, e := th.ReadCurrent(r.Kind, cid)
				if e != nil {
					w.Violate("C18", "imported-keys-identical", site+"/"+shape(r.Kind), fmt.Sprintf("%s: current key does not read on the target: %v", id, e))
					continue
				}
				if !bytes.Equal(v.Secret, newest.Val.Secret) || (IsPair(r.Kind) && !bytes.Equal(v.Public, newest.Val.Public)) {
					w.Violate("C18", "imported-keys-identical", site+"/"+shape(r.Kind), fmt.Sprintf("%s: current key on the target differs from the source", id))
					continue
				}
			}
			// v2 rings travel whole: seqnums, key states (destroyed keys included) and current marker
			if format == 2 && explicit && mode != keystore.ExportPublicOnly {
				loc := strings.TrimSuffix(c07Location(src, r.Kind, r.Client), ".keyring")
				a, ea := c18RingShape(s.H, loc)
				b, eb := c18RingShape(th, loc)
				if ea == nil && (eb != nil || a != b) {
					w.Violate("C18", "imported-history-identical", site+"/ring-shape", fmt.Sprintf("%s: source ring is [%s], target ring is [%s] (%v)", id, a, b, eb))
				}
			}
			// history, order and current marker travel with "everything" exports
			if ((format == 1 && !explicit) || (format == 2 && explicit)) && HasReadAll(r.Kind) {
				all, e := th.ReadAll(r.Kind, cid)
				want := secrets(r.AliveNewestFirst())
				if e != nil && len(want) > 0 {
					w.Violate("C18", "imported-history-identical", site+"/"+shape(r.Kind), fmt.Sprintf("%s: %v", id, e))
				} else if e == nil && !equalLists(all, want) {
					w.Violate("C18", "imported-history-identical", site+"/"+shape(r.Kind), fmt.Sprintf("%s: target offers [%s], source [%s]", id, hexs(all), hexs(want)))
				}
			}
		}
		// --- modified bundles and wrong access keys are rejected, target unchanged
		preImage := pre.Image()
		tryReject := func(what string, b *keystore.KeysBackup) bool {
			c := pre.Clone()
			ch := freshObserver(c)
			cb, err := newBackuper(c, ch)
			if err != nil {
				return true
			}
			err, pv := Guard(func() error { _, e := cb.Import(b); return e })
			w.Res.Extra["tampered_imports"]++
			if pv != nil {
				w.Violate("C18", "no-panic", fm+"/tampered-import", fmt.Sprintf("%s: %v", what, pv))
				return false
			}
			if err == nil && strings.HasPrefix(what, "keys") && format == 2 && sameV2AccessKeys(b.Keys, backup.Keys) {
				// the serialized access keys changed only in encoding slack (JSON
				// field-name case, base64 padding bits): still the right keys
				w.Probe("access-keys-encoding-slack")
				return true
			}
			if err == nil {
				w.Violate("C18", "modified-bundle-rejected", fm+"/"+what[:4], fmt.Sprintf("%s: import succeeded", what))
				return false
			}
			if c.Image() != preImage {
				w.Violate("C18", "rejected-import-leaves-target-unchanged", fm, fmt.Sprintf("%s: import failed (%v) but the target changed", what, err))
				return false
			}
			return true
		}
		step := 1
		if len(backup.Data) > 700 {
			step = len(backup.Data)/500 + 1
		}
		off := int(plan.Seed % uint64(step))
		for pos := off; pos < len(backup.Data); pos += step {
			d := cp(backup.Data)
			d[pos] ^= byte(1 << (uint(pos) % 8))
			if !tryReject(fmt.Sprintf("data byte %d of %d", pos, len(d)), &keystore.KeysBackup{Keys: cp(backup.Keys), Data: d}) {
				return
			}
		}
		for pos := 0; pos < len(backup.Keys); pos++ {
			k := cp(backup.Keys)
			k[pos] ^= byte(1 << (uint(pos) % 8))
			if !tryReject(fmt.Sprintf("keys byte %d of %d", pos, len(k)), &keystore.KeysBackup{Keys: k, Data: cp(backup.Data)}) {
				return
			}
		}
		w.Res.SimNanos = int64(time.Since(start))
		w.State(fmt.Sprintf("%s rings=%d sel=%d", site, len(model.Rings), len(selected)))
	})
	return w.Finish()
}

type v2AccessKeys struct {
	Encryption []byte `json:"encryption"`
	Signature  []byte `json:"signature"`
}

func sameV2AccessKeys(a, b []byte) bool {
	var ka, kb v2AccessKeys
	if json.Unmarshal(a, &ka) != nil || json.Unmarshal(b, &kb) != nil {
		return false
	}
	return bytes.Equal(ka.Encryption, kb.Encryption) && bytes.Equal(ka.Signature, kb.Signature)
}

type c18FileParams struct {
	keystore.Exporter
	data, keys string
}

func (p c18FileParams) ExportKeysFile() string         { return p.keys }
func (p c18FileParams) ExportDataFile() string         { return p.data }
func (p c18FileParams) ExportIDs() []keystore.ExportID { return nil }
func (p c18FileParams) ExportAll() bool                { return false }
func (p c18FileParams) ExportPrivate() bool            { return false }

// c18ThroughFiles writes an older, larger bundle and then this bundle into the
// same two files with the command's own writer and reads them back.
func c18ThroughFiles(b *keystore.KeysBackup, seed uint64) (*keystore.KeysBackup, error) {
	dir, err := os.MkdirTemp("", "verif-c18-")
	if err != nil {
		return nil, err
	}
	defer os.RemoveAll(dir)
	p := c18FileParams{data: filepath.Join(dir, "bundle.dat"), keys: filepath.Join(dir, "bundle.key")}
	older := append(append([]byte{}, b.Data...), bytes.Repeat([]byte{0x5a}, 40+int(seed%50))...)
	olderKeys := append(append([]byte{}, b.Keys...), bytes.Repeat([]byte{0x5a}, 9)...)
	if err := acrakeys.WriteExportedData(older, olderKeys, p); err != nil {
		return nil, fmt.Errorf("first export: %w", err)
	}
	if err := acrakeys.WriteExportedData(b.Data, b.Keys, p); err != nil {
		return nil, fmt.Errorf("second export: %w", err)
	}
	data, err := os.ReadFile(p.data)
	if err != nil {
		return nil, err
	}
	keys, err := os.ReadFile(p.keys)
	if err != nil {
		return nil, err
	}
	return &keystore.KeysBackup{Data: data, Keys: keys}, nil
}

// c18RingShape describes a v2 ring: seqnums, states and the current marker.
func c18RingShape(h *Handle, path string) (string, error) {
	r, err := h.V2.OpenKeyRing(path)
	if err != nil {
		return "", err
	}
	seqs, err := r.AllKeys()
	if err != nil {
		return "", err
	}
	cur, cerr := r.CurrentKey()
	var sb strings.Builder
	fmt.Fprintf(&sb, "current=%d(%v)", cur, cerr)
	for _, sq := range seqs {
		st, _ := r.State(sq)
		fmt.Fprintf(&sb, " %d:%v", sq, st)
	}
	return sb.String(), nil
}

func c18Public(h *Handle, r *MRing) ([]byte, error) {
	if r.Kind == KStoragePair {
		k, err := h.KS.GetClientIDEncryptionPublicKey([]byte(r.Client))
		if err != nil {
			return nil, err
		}
		return k.Value, nil
	}
	kp, err := h.KS.GetPoisonKeyPair()
	if err != nil {
		return nil, err
	}
	return kp.Public.Value, nil
}

// c18Migrate runs the v1 -> v2 migration (acra-keys migrate: enumerate the exportable keys of the v1 key
// store, import each into a fresh v2 key store) and compares every current key of the source with the
// target. Rotated keys are not carried over by the migration and are not compared.
func c18Migrate(w *kernel.World, s *Session, model *Model, rng *kernel.RNG) {
	tgt := NewDisk(2, rng)
	h2, err := Open(w, 0, tgt, 0)
	if err != nil {
		w.Violate("C18", "open-succeeds", "migrate/target", err.Error())
		return
	}
	// acra-keys migrate: keys that cannot be imported are skipped and reported at the end ("Incomplete key
	// import"); files of the history directories are among them. What is asserted is the outcome: every
	// current key of the source is in the target with the same value.
	// (the migration walks the exported keys in the order of a Go map)
	w.BeginUnordered()
	merr, pv := Guard(func() error { return acrakeys.MigrateV1toV2(s.H.V1, h2.V2) })
	w.EndUnordered()
	if pv != nil {
		w.Violate("C18", "no-panic", "migrate/import", fmt.Sprint(pv))
		return
	}
	if merr != nil {
		w.Probe("migration-reported-incomplete")
	}
	for _, id := range model.RingIDs() {
		r := model.Rings[id]
		newest := r.Newest()
		if newest == nil || !newest.Alive {
			continue
		}
		got, gerr := h2.ReadCurrent(r.Kind, []byte(r.Client))
		site := "migrate/" + shape(r.Kind) + "/" + r.Kind
		switch {
		case gerr != nil:
			w.Violate("C18", "imported-keys-identical", site, fmt.Sprintf("%s: current key of the source is not readable in the migrated key store: %v", id, gerr))
		case !bytes.Equal(got.Secret, newest.Val.Secret):
			w.Violate("C18", "imported-keys-identical", site, fmt.Sprintf("%s: current key differs after migration (%d bytes, all zero: %v)", id, len(got.Secret), len(got.Secret) > 0 && bytes.Count(got.Secret, []byte{0}) == len(got.Secret)))
		case IsPair(r.Kind) && !bytes.Equal(got.Public, newest.Val.Public):
			w.Violate("C18", "imported-keys-identical", site, fmt.Sprintf("%s: public half differs after migration", id))
		}
	}
	w.Probe("v1-to-v2-migration")
}
