package ksw

import (
	"bytes"
	"errors"
	"fmt"
	"os"
	"time"

	"github.com/cossacklabs/acra/keystore"
	v2api "github.com/cossacklabs/acra/keystore/v2/keystore/api"
	beapi "github.com/cossacklabs/acra/keystore/v2/keystore/filesystem/backend/api"

	"verif/sim/kernel"
)

// reconcile is called after a fault fired inside op (error return, crash or
// torn write) and the keystore has been reopened with a fresh handle. The
// write may or may not have taken effect; the model is brought in line with
// what the disk shows, and C08's atomicity rules are evaluated while doing so:
// the victim is its old self, absent, or completely new — nothing else.
func (s *Session) reconcile(op kernel.Op, kind, client string) {
	if kind == "" {
		return
	}
	ring := s.M.Ring(kind, client)
	id := ringID(kind, client)
	cid := []byte(client)
	site := fmt.Sprintf("%s/%s/%s", s.fmtName(), shape(kind), op.Kind)
	var cur KeyVal
	curErr, pv := Guard(func() error { var e error; cur, e = s.H.ReadCurrent(kind, cid); return e })
	if pv != nil {
		s.violate("no-panic", site+"/read-current", fmt.Sprint(pv))
		return
	}
	var all [][]byte
	var allErr error
	if HasReadAll(kind) {
		allErr, pv = Guard(func() error { var e error; all, e = s.H.ReadAll(kind, cid); return e })
		if pv != nil {
			s.violate("no-panic", site+"/read-all", fmt.Sprint(pv))
			return
		}
	}
	// an "all keys" read that fails because there is nothing to read offers
	// nothing; one that fails for another reason means the keystore does not
	// read after the fault
	if allErr != nil {
		if isNoKeysErr(allErr) {
			all, allErr = nil, nil
		} else if len(ring.AliveNewestFirst()) > 0 {
			s.violate("readable-before-still-readable", site, fmt.Sprintf("%s: keys no longer read after the fault: %v", id, allErr))
			s.broken[id] = true
			return
		}
	}
	newest := ring.Newest()
	switch op.Kind {
	case OGen:
		s.relaxed[id] = true
		switch {
		case curErr == nil && newest != nil && newest.Alive && bytes.Equal(cur.Secret, newest.Val.Secret):
			// still its old self
			if IsPair(kind) && !bytes.Equal(cur.Public, newest.Val.Public) {
				s.violate("victim-old-or-new", site, fmt.Sprintf("%s: private half is the old key, public half is not", id))
			}
			s.W.Probe("fault-gen-not-applied")
		case curErr == nil && s.knownSecret(ring, cur.Secret) == nil:
			// a new key: must be complete
			if IsPair(kind) {
				if err := pairMatches(cur); err != nil {
					s.violate("victim-old-or-new", site, fmt.Sprintf("%s: current private and public halves do not belong together after the fault (%v)", id, err))
					// adopt nothing: the pair is a mixture, reported once
					s.broken[id] = true
					return
				}
			}
			s.adopt(ring, cur, time.Now())
			s.W.Probe("fault-gen-applied")
		case curErr == nil:
			k := s.knownSecret(ring, cur.Secret)
			s.violate("victim-old-or-new", site, fmt.Sprintf("%s: after the fault the current key is key #%d, neither the previous current key nor a new one", id, k.N))
		default:
			if newest != nil && newest.Alive {
				// the old current key was readable before the fault
				if HasReadAll(kind) && allErr == nil && contains(all, newest.Val.Secret) {
					// still offered for decryption, only "current" is broken
					s.violate("readable-before-still-readable", site, fmt.Sprintf("%s: current key no longer reads after the fault: %v", id, curErr))
				} else {
					s.violate("readable-before-still-readable", site, fmt.Sprintf("%s: current key lost after the fault: %v", id, curErr))
				}
			}
			s.W.Probe("fault-gen-absent")
		}
	case ODCur:
		s.relaxed[id] = true
		if newest == nil || !newest.Alive {
			return
		}
		gone := curErr != nil || !bytes.Equal(cur.Secret, newest.Val.Secret)
		if HasReadAll(kind) && allErr == nil && contains(all, newest.Val.Secret) {
			gone = false
		}
		if gone {
			newest.Alive = false
			s.lastMut = ODCur
			s.W.Probe("fault-destroy-applied")
		} else {
			s.W.Probe("fault-destroy-not-applied")
		}
	case ODRot:
		s.relaxed[id] = true
		if !HasReadAll(kind) || allErr != nil {
			return
		}
		// apply() stored the targeted key number in the op copy only when the
		// destroy was reached; find the key by what is no longer offered
		for _, k := range ring.Rotated() {
			if !contains(all, k.Val.Secret) {
				k.Alive = false
				s.lastMut = ODRot
				s.W.Probe("fault-destroy-rotated-applied")
				break // at most one key may have gone
			}
		}
	}
}

func isNoKeysErr(err error) bool {
	return errors.Is(err, keystore.ErrKeysNotFound) || errors.Is(err, beapi.ErrNotExist) || os.IsNotExist(err) ||
		errors.Is(err, v2api.ErrNoCurrentKey) || errors.Is(err, v2api.ErrKeyDestroyed)
}

func (s *Session) knownSecret(ring *MRing, secret []byte) *MKey {
	for _, k := range ring.Keys {
		if bytes.Equal(k.Val.Secret, secret) {
			return k
		}
	}
	return nil
}
