package ksw

import (
	"bytes"
	"fmt"
	"strings"
	"time"

	"verif/sim/kernel"
)

// Session drives one keystore handle through plan operations, keeps the
// reference model next to it and evaluates the oracle rules of C06 (always)
// and C08 (after faults).
type Session struct {
	W     *kernel.World
	Prop  string // property whose rules are being gated on
	Proc  int
	Disk  *Disk
	H     *Handle
	M     *Model
	Cache int

	lastMut string
	fresh   bool                       // nothing cached since last reset/reopen
	offered map[string]map[string]bool // ring id -> secrets this handle offered since last reset
	relaxed map[string]bool            // rings that may carry a fault residue (C08)
	broken  map[string]bool            // rings whose victim key was found to be a mixture (reported once)
	faulted bool                       // a fault has fired in this run
	markerN int
	inApply     bool
	opFiredBase int
	// touchedEmpty: an operation other than generate was issued on a key
	// that was never generated. Keystore v2 then leaves an empty key ring
	// behind, which makes key listing fail; the listing rules of C06/C08 are
	// not stated for that situation and are not gated on afterwards (it is
	// recorded as a probe instead).
	touchedEmpty bool
	obs     *Handle // cache-less observer on the same disk, outside the event log
}

// observer returns a handle without cache and without faults whose storage
// calls are not part of the run's event log. It is used to learn the value of
// a freshly generated key when the session's own handle has a warm cache
// (which may legitimately serve older keys until it is reset).
func (s *Session) observer() *Handle {
	if s.obs == nil {
		scratch := kernel.NewWorld(&kernel.Plan{}, false)
		scratch.MaxSteps = 1 << 60
		h, err := Open(scratch, 0, s.Disk, -1)
		if err != nil {
			panic(fmt.Sprintf("observer open: %v", err))
		}
		s.obs = h
	}
	return s.obs
}

// Op kinds understood by Session.
const (
	OGen    = "gen"
	OCur    = "cur"
	OAll    = "all"
	OListC  = "listc"
	OListR  = "listr"
	ODCur   = "dcur"
	ODRot   = "drot"
	OReset  = "reset"
	OReopen = "reopen"
	OWarm   = "warm" // CacheOnStart (v1)
)

// NewSession opens the first handle.
func NewSession(w *kernel.World, prop string, proc int, d *Disk, m *Model, cache int) (*Session, error) {
	s := &Session{W: w, Prop: prop, Proc: proc, Disk: d, M: m, Cache: cache, fresh: true,
		offered: map[string]map[string]bool{}, relaxed: map[string]bool{}, broken: map[string]bool{}, lastMut: "start"}
	h, err := Open(w, proc, d, cache)
	if err != nil {
		return nil, err
	}
	s.H = h
	return s, nil
}

func (s *Session) fmtName() string { return fmt.Sprintf("v%d", s.Disk.Format) }

func shape(kind string) string {
	if IsPair(kind) {
		return "pair"
	}
	return "sym"
}

func (s *Session) site(kind string) string {
	return fmt.Sprintf("%s/%s", s.fmtName(), shape(kind))
}

func (s *Session) violate(rule, site, detail string) {
	if s.inApply && rule != "no-panic" && totalFired(s.W) > s.opFiredBase {
		// the operation is running under an injected fault: its failure is the
		// fault's doing; what it left behind is judged by reconcile/CheckAll
		s.W.Probe("failure-under-fault")
		return
	}
	s.W.Violate(s.Prop, rule, site, detail)
}

// slug turns an error text into a short stable token for site signatures.
func slug(err error) string {
	if err == nil {
		return "nil"
	}
	msg := err.Error()
	if i := strings.LastIndex(msg, ": "); i >= 0 {
		msg = msg[i+2:] // the innermost cause, without paths
	}
	var sb strings.Builder
	for _, c := range strings.ToLower(msg) {
		switch {
		case c >= 'a' && c <= 'z':
			sb.WriteRune(c)
		case sb.Len() > 0 && sb.String()[sb.Len()-1] != '-':
			sb.WriteByte('-')
		}
		if sb.Len() >= 40 {
			break
		}
	}
	return strings.Trim(sb.String(), "-")
}

func (s *Session) mutSite(kind string, err error) string {
	if s.faulted {
		return s.site(kind) + ":" + slug(err)
	}
	return s.site(kind)
}

// mutRule names the rule for a failing write: after a fault has fired the
// bounded-liveness rule of C08 applies.
func (s *Session) mutRule(plain string) string {
	if s.faulted {
		return "post-fault-write-succeeds"
	}
	return plain
}

// Reopen drops the handle (as a process restart does) and opens a new one.
func (s *Session) Reopen() error {
	s.H.Drop()
	h, err := Open(s.W, s.Proc, s.Disk, s.Cache)
	if err != nil {
		return err
	}
	s.H = h
	s.fresh = true
	s.offered = map[string]map[string]bool{}
	return nil
}

func (s *Session) cached() bool { return s.Disk.Format == 1 && s.Cache != -1 }

// Step executes one operation and then checks the invariants. Faults, if the
// plan has any for this op, fire inside; a simulated crash is handled here:
// the handle is dropped and reopened, the model is reconciled.
func (s *Session) Step(op kernel.Op) {
	kind, client := op.Str(0), op.Str(1)
	s.W.BeginOp(s.Proc, op)
	firedBefore := totalFired(s.W)
	var outcome string
	s.inApply, s.opFiredBase = true, firedBefore
	crashed, cut, pv := kernel.Protect(func() { outcome = s.apply(op, kind, client) })
	s.inApply = false
	if cut {
		panic(kernel.CutSignal{})
	}
	if pv != nil {
		s.violate("no-panic", s.fmtName()+"/"+shape(kind)+"/"+op.Kind, fmt.Sprintf("panic in %s: %v", op.String(), pv))
		outcome = "panic"
	}
	if op.Kind != OReset && op.Kind != OReopen {
		s.fresh = false // any call may have touched the cache
	}
	faultHere := totalFired(s.W) > firedBefore
	if crashed {
		outcome = "crashed"
	}
	s.W.EndOp(s.Proc, outcome)
	if faultHere || crashed || pv != nil {
		s.faulted = s.faulted || faultHere
		// restart: fresh handle over whatever the disk holds
		if err := s.Reopen(); err != nil {
			s.violate("post-fault-open", s.fmtName(), fmt.Sprintf("cannot reopen keystore after fault in %s: %v", op.String(), err))
			return
		}
		if faultHere {
			s.reconcile(op, kind, client)
		}
	}
	s.CheckAll()
	s.W.State(s.M.Abstract() + fmt.Sprintf(" fresh=%v cache=%d", s.fresh, s.Cache))
}

func (s *Session) modelEmpty() bool {
	for _, r := range s.M.Rings {
		if len(r.Keys) > 0 {
			return false
		}
	}
	return true
}

func totalFired(w *kernel.World) int {
	n := 0
	for _, v := range w.Res.Fired {
		n += v
	}
	return n
}

// apply performs the operation proper and updates the model for fault-free
// outcomes. It returns a short outcome string for the event log.
func (s *Session) apply(op kernel.Op, kind, client string) string {
	cid := []byte(client)
	if op.Kind != OGen && kind != "" && len(s.M.Ring(kind, client).Keys) == 0 {
		switch op.Kind {
		case ODCur, ODRot, OCur, OAll:
			s.touchedEmpty = true
			s.W.Probe("op-on-never-generated-key")
		}
	}
	now := time.Now()
	switch op.Kind {
	case OGen:
		ring := s.M.Ring(kind, client)
		firedBefore := totalFired(s.W)
		err := s.H.Generate(kind, cid)
		if totalFired(s.W) > firedBefore {
			return fmt.Sprintf("gen under fault err=%v", err)
		}
		if err != nil {
			s.violate(s.mutRule("generate-succeeds"), s.mutSite(kind, err), fmt.Sprintf("%s: %v", op.String(), err))
			return "gen failed: " + err.Error()
		}
		reader := s.H
		if s.cached() {
			reader = s.observer()
		}
		v, err := reader.ReadCurrent(kind, cid)
		if totalFired(s.W) > firedBefore {
			return fmt.Sprintf("gen ok, read under fault err=%v", err)
		}
		if err != nil {
			s.violate("current-readable-after-generate", s.site(kind), fmt.Sprintf("%s: %v", op.String(), err))
			s.lastMut = OGen
			return "gen ok, read failed"
		}
		s.adopt(ring, v, now)
		s.lastMut = OGen
		return "gen ok"
	case ODCur:
		if !HasDestroy(kind) {
			return "skip"
		}
		ring := s.M.Ring(kind, client)
		newest := ring.Newest()
		firedBefore := totalFired(s.W)
		err := s.H.DestroyCurrent(kind, cid)
		if totalFired(s.W) > firedBefore {
			return fmt.Sprintf("dcur under fault err=%v", err)
		}
		if newest != nil && newest.Alive {
			if err != nil {
				s.violate(s.mutRule("destroy-current-succeeds"), s.mutSite(kind, err), fmt.Sprintf("%s: %v", op.String(), err))
				return "dcur failed"
			}
			newest.Alive = false
			s.lastMut = ODCur
			s.W.Probe("destroy-current")
			return "dcur ok"
		}
		return fmt.Sprintf("dcur without live current: err=%v", err)
	case ODRot:
		if !HasDestroy(kind) {
			return "skip"
		}
		ring := s.M.Ring(kind, client)
		if s.relaxed[ringID(kind, client)] {
			return "skip (ring carries fault residue)"
		}
		listed, err := s.H.ListRotated()
		if err != nil {
			if !s.modelEmpty() && !s.touchedEmpty {
				s.listingFailed("listr", err)
			}
			return "listr failed"
		}
		var mine []Listed
		for _, l := range listed {
			if l.Kind == kind && !l.Public && (!HasClient(kind) || l.Client == client) {
				mine = append(mine, l)
			}
		}
		if len(mine) == 0 {
			// nothing listed: index 2 names no key; the call may fail but
			// must not bring the handler down and must not remove anything
			firedBefore := totalFired(s.W)
			err := s.H.DestroyRotated(kind, cid, 2)
			if totalFired(s.W) > firedBefore {
				return "drot(empty) under fault"
			}
			s.W.Probe("destroy-rotated-empty-listing")
			return fmt.Sprintf("drot with empty listing: err=%v", err)
		}
		pick := mine[int(op.Arg(0, 0))%len(mine)]
		target := s.mapListed(ring, pick)
		if target == nil {
			s.violate("listing-entry-known", s.site(kind), fmt.Sprintf("rotated listing entry idx=%d time=%v matches no rotated key of the model", pick.Index, pick.Time))
			return "unknown listing entry"
		}
		firedBefore := totalFired(s.W)
		err = s.H.DestroyRotated(kind, cid, pick.Index)
		if totalFired(s.W) > firedBefore {
			op.A = []int64{int64(target.N)}
			return fmt.Sprintf("drot under fault err=%v target=%d", err, target.N)
		}
		if err != nil {
			s.violate(s.mutRule("destroy-rotated-succeeds"), s.mutSite(kind, err), fmt.Sprintf("%s listing idx=%d of %d: %v", op.String(), pick.Index, len(mine), err))
			return "drot failed"
		}
		target.Alive = false
		s.lastMut = ODRot
		s.W.Probe("destroy-rotated")
		return fmt.Sprintf("drot ok idx=%d key#%d", pick.Index, target.N)
	case OCur, OAll, OListC, OListR:
		// reads of generated keys are covered by CheckAll after the step;
		// a read of a never-generated key may fail but must not panic
		if (op.Kind == OCur || op.Kind == OAll) && len(s.M.Ring(kind, client).Keys) == 0 {
			err, pv := Guard(func() error {
				if op.Kind == OAll && HasReadAll(kind) {
					_, e := s.H.ReadAll(kind, cid)
					return e
				}
				_, e := s.H.ReadCurrent(kind, cid)
				return e
			})
			if pv != nil {
				s.violate("no-panic", s.fmtName()+"/"+shape(kind)+"/read-missing", fmt.Sprint(pv))
			}
			return fmt.Sprintf("read of never-generated key: err=%v", err)
		}
		return "read"
	case OReset:
		s.H.Reset()
		s.fresh = true
		s.offered = map[string]map[string]bool{}
		s.lastMut = OReset
		return "reset"
	case OReopen:
		if err := s.Reopen(); err != nil {
			s.violate("reopen-succeeds", s.fmtName(), err.Error())
		}
		s.lastMut = OReopen
		return "reopen"
	case OWarm:
		if s.Disk.Format == 1 && !s.modelEmpty() {
			err := s.H.KS.CacheOnStart()
			if err != nil {
				rule, site := "cache-warmup-succeeds", s.fmtName()
				if s.faulted {
					rule, site = "post-fault-cache-warmup", site+":"+slug(err)
				}
				s.violate(rule, site, err.Error())
			}
			s.fresh = false
		}
		return "warm"
	}
	return "unknown op"
}

// adopt appends a freshly generated key to the model.
func (s *Session) adopt(ring *MRing, v KeyVal, now time.Time) *MKey {
	for _, k := range ring.Keys {
		if bytes.Equal(k.Val.Secret, v.Secret) {
			s.violate("generated-key-is-new", s.site(ring.Kind), fmt.Sprintf("generate in %s produced the value of key #%d again", ringID(ring.Kind, ring.Client), k.N))
		}
	}
	if prev := ring.Newest(); prev != nil {
		prev.RotOut = now
	}
	if IsPair(ring.Kind) {
		if err := pairMatches(v); err != nil {
			s.violate("current-pair-consistent", s.site(ring.Kind), fmt.Sprintf("%s: halves of the generated pair do not belong together: %v", ringID(ring.Kind, ring.Client), err))
		}
	}
	s.markerN++
	k := &MKey{N: len(ring.Keys) + 1, Val: v, Alive: true, Gen: now,
		Marker: []byte(fmt.Sprintf("marker-%s-%d-%d", ringID(ring.Kind, ring.Client), len(ring.Keys)+1, s.markerN))}
	if HasReadAll(ring.Kind) {
		c, err := protectUnder(ring.Kind, v, k.Marker)
		if err != nil {
			s.violate("current-key-usable", s.site(ring.Kind), fmt.Sprintf("cannot protect a value under the new current key: %v", err))
		}
		k.Cipher = c
	}
	ring.Keys = append(ring.Keys, k)
	if len(ring.Keys) > 1 {
		s.W.Probe("rotation")
		if s.cached() && !s.fresh {
			s.W.Probe("rotation-with-warm-cache")
		}
	}
	return k
}

// mapListed finds the model key a rotated-listing entry denotes, from the
// time the listing shows: v1 shows when the key stopped being current, v2
// when it was created (to the second).
func (s *Session) mapListed(ring *MRing, l Listed) *MKey {
	for _, k := range ring.Rotated() {
		if s.Disk.Format == 1 {
			if k.RotOut.Equal(l.Time) {
				return k
			}
		} else if k.Gen.Truncate(time.Second).Equal(l.Time.Truncate(time.Second)) {
			return k
		}
	}
	return nil
}

func (s *Session) listingFailed(which string, err error) {
	if s.touchedEmpty {
		s.W.Probe("listing-fails-after-op-on-never-generated-key")
		return
	}
	rule, site := "listing-succeeds", s.fmtName()+"/"+which
	if s.faulted {
		rule, site = "post-fault-listing", site+":"+slug(err)
	}
	s.violate(rule, site, err.Error())
}

// CheckAll evaluates the refinement invariants against the model.
func (s *Session) CheckAll() {
	strict := !s.cached() || s.fresh
	if s.modelEmpty() {
		return
	}
	defer func() { s.fresh = false }()
	anyDead := false
	for _, id := range s.M.RingIDs() {
		ring := s.M.Rings[id]
		if len(ring.Keys) == 0 {
			continue
		}
		cid := []byte(ring.Client)
		relaxed := s.relaxed[id]
		if s.broken[id] {
			continue // already reported as a mixture; nothing further is known about it
		}
		newest := ring.Newest()
		alive := ring.AliveNewestFirst()
		if !newest.Alive {
			anyDead = true
		}
		// --- read current
		var cur KeyVal
		err, pv := Guard(func() error { var e error; cur, e = s.H.ReadCurrent(ring.Kind, cid); return e })
		if pv != nil {
			s.violate("no-panic", s.fmtName()+"/"+shape(ring.Kind)+"/read-current", fmt.Sprint(pv))
		} else if !strict {
			// warm cache: the statement promises only that surviving keys that
			// were offered stay offered (checked below on read-all)
		} else if newest.Alive {
			if err != nil {
				s.violate("current-readable", s.site(ring.Kind), fmt.Sprintf("%s: read current: %v", id, err))
			} else if !bytes.Equal(cur.Secret, newest.Val.Secret) {
				s.violate("current-is-newest", s.site(ring.Kind), fmt.Sprintf("%s: current key is not the most recently generated surviving key", id))
			} else if IsPair(ring.Kind) && !bytes.Equal(cur.Public, newest.Val.Public) {
				s.violate("current-is-newest", s.site(ring.Kind), fmt.Sprintf("%s: public half of the current pair changed", id))
			}
		} else if err == nil && !contains(secrets(alive), cur.Secret) {
			s.violate("destroyed-key-not-offered", s.site(ring.Kind), fmt.Sprintf("%s: read current returned a key that is not a surviving key", id))
		}
		// --- read all
		if !HasReadAll(ring.Kind) {
			continue
		}
		var all [][]byte
		err, pv = Guard(func() error { var e error; all, e = s.H.ReadAll(ring.Kind, cid); return e })
		if pv != nil {
			s.violate("no-panic", s.fmtName()+"/"+shape(ring.Kind)+"/read-all", fmt.Sprint(pv))
			continue
		}
		want := secrets(alive)
		if err != nil {
			if strict && len(alive) > 0 {
				cause := "newest-alive"
				if !newest.Alive {
					cause = "newest-destroyed"
				}
				s.violate("survivors-offered", s.site(ring.Kind)+"/"+cause, fmt.Sprintf("%s: %d surviving key(s) but read-all fails: %v", id, len(alive), err))
			}
			if strict {
				continue
			}
			all = nil // warm cache: a failing read offers nothing
		}
		got := all
		// destroyed keys must never be offered (fault-free rings only: a fault
		// may leave a second copy of a key behind, which a later destruction
		// of that key does not remove; C08 does not speak about it)
		if strict && !relaxed {
			for _, k := range ring.Keys {
				if !k.Alive && !k.Maybe && contains(all, k.Val.Secret) {
					s.violate("destroyed-key-not-offered", s.site(ring.Kind), fmt.Sprintf("%s: key #%d was destroyed but is still offered", id, k.N))
				}
			}
		}
		off := s.offered[id]
		if off == nil {
			off = map[string]bool{}
			s.offered[id] = off
		}
		if strict && relaxed {
			if !isSubsequence(want, all) {
				s.violate("readable-before-still-readable", s.site(ring.Kind), fmt.Sprintf("%s: offered [%s], surviving keys newest-first are [%s]", id, hexs(all), hexs(want)))
			}
			s.noteResidue(ring, all)
		} else if strict {
			if !equalLists(got, want) {
				s.violate("read-all-matches-model", s.site(ring.Kind), fmt.Sprintf("%s: offered [%s], surviving keys newest-first are [%s]", id, hexs(all), hexs(want)))
			}
		} else {
			// warm cache: never stop offering a surviving key offered earlier
			for _, k := range alive {
				if off[string(k.Val.Secret)] && !contains(all, k.Val.Secret) {
					s.violate("cache-monotone", s.site(ring.Kind), fmt.Sprintf("%s: surviving key #%d was offered earlier by this handle and is not offered any more (offered [%s])", id, k.N, hexs(all)))
				}
			}
		}
		for _, b := range all {
			off[string(b)] = true
		}
		// values protected at birth must still open with what is offered
		if strict {
			for _, k := range alive {
				if k.Cipher == nil {
					continue
				}
				pt, derr := revealWith(ring.Kind, all, k.Cipher)
				if derr != nil || !bytes.Equal(pt, k.Marker) {
					s.violate("old-data-readable", s.site(ring.Kind), fmt.Sprintf("%s: value protected under surviving key #%d no longer opens: %v", id, k.N, derr))
				}
			}
		}
	}
	// --- listings
	if s.anyRelaxed() {
		// residues change what listings show; only their success is asserted
		if _, err := s.H.ListCurrent(); err != nil {
			s.listingFailed("listc", err)
		}
		if _, err := s.H.ListRotated(); err != nil {
			s.listingFailed("listr", err)
		}
		return
	}
	cur, err := s.H.ListCurrent()
	if err != nil {
		if !anyDead || s.faulted {
			s.listingFailed("listc", err)
		}
	} else {
		for _, id := range s.M.RingIDs() {
			ring := s.M.Rings[id]
			if len(ring.Keys) == 0 || !ring.Newest().Alive {
				continue
			}
			n := 0
			for _, l := range cur {
				if l.Kind == ring.Kind && !l.Public && (!HasClient(ring.Kind) || l.Client == ring.Client) {
					n++
					if l.Index != 1 {
						s.violate("listing-current-index", s.site(ring.Kind), fmt.Sprintf("%s listed as current with index %d", id, l.Index))
					}
				}
			}
			if n != 1 {
				s.violate("listing-shows-current", s.site(ring.Kind), fmt.Sprintf("%s: %d current entries listed, want 1", id, n))
			}
		}
	}
	rot, err := s.H.ListRotated()
	if err != nil {
		s.listingFailed("listr", err)
		return
	}
	for _, id := range s.M.RingIDs() {
		ring := s.M.Rings[id]
		if len(ring.Keys) == 0 || !HasDestroy(ring.Kind) {
			continue
		}
		want := ring.Rotated()
		var mine []Listed
		for _, l := range rot {
			if l.Kind == ring.Kind && !l.Public && (!HasClient(ring.Kind) || l.Client == ring.Client) {
				mine = append(mine, l)
			}
		}
		if len(mine) != len(want) {
			s.violate("listing-shows-rotated", s.site(ring.Kind), fmt.Sprintf("%s: %d rotated entries listed, %d surviving rotated keys", id, len(mine), len(want)))
			continue
		}
		seen := map[int]bool{}
		for _, l := range mine {
			if l.Index < 2 || seen[l.Index] {
				s.violate("listing-rotated-index", s.site(ring.Kind), fmt.Sprintf("%s: rotated entry with index %d", id, l.Index))
			}
			seen[l.Index] = true
		}
	}
}

func (s *Session) anyRelaxed() bool { return len(s.relaxed) > 0 }

func clientOfV2(keyID string) string {
	// client/<id>/<purpose>
	parts := bytes.Split([]byte(keyID), []byte("/"))
	if len(parts) == 3 {
		return string(parts[1])
	}
	return ""
}

// isSubsequence reports whether want occurs in all in order.
func isSubsequence(want, all [][]byte) bool {
	i := 0
	for _, b := range all {
		if i < len(want) && bytes.Equal(b, want[i]) {
			i++
		}
	}
	return i == len(want)
}

// noteResidue counts what kind of residue a relaxed ring shows.
func (s *Session) noteResidue(ring *MRing, all [][]byte) {
	s.stripResidue(ring, all)
}

// stripResidue removes what a fault may legitimately leave in an "all keys"
// list: repeated copies of a key already offered (v1 backs the current file up
// before renaming) and keys unknown to the model at the newest position(s)
// (v2: added but never made current; v1: private half written, pair not
// completed).
func (s *Session) stripResidue(ring *MRing, all [][]byte) [][]byte {
	known := map[string]bool{}
	for _, k := range ring.Keys {
		known[string(k.Val.Secret)] = true
	}
	var out [][]byte
	for _, b := range all {
		if !known[string(b)] {
			s.W.Probe("residue-unknown-key")
			continue
		}
		if contains(out, b) {
			s.W.Probe("residue-duplicate-key")
			continue
		}
		out = append(out, b)
	}
	return out
}
