package probe

import (
	"testing"
	"testing/cryptotest"
	"testing/synctest"
	"crypto/rand"
	"time"

	_ "github.com/cossacklabs/acra/cmd/acra-translator/common"
	_ "github.com/cossacklabs/acra/decryptor/postgresql"
	_ "github.com/cossacklabs/acra/decryptor/mysql"
	_ "github.com/cossacklabs/acra/keystore/v2/keystore/filesystem"
	_ "github.com/cossacklabs/acra/cmd/acra-keys/keys"
	"github.com/cossacklabs/themis/gothemis/keys"
)

func TestProbe(t *testing.T) {
	for i := 0; i < 2; i++ {
		t.Run("x", func(t *testing.T) {
			cryptotest.SetGlobalRandom(t, 42)
			synctest.Test(t, func(t *testing.T) {
				kp, _ := keys.New(keys.TypeEC)
				b := make([]byte, 4)
				rand.Read(b)
				t.Logf("%x %x %v", kp.Public.Value[:16], b, time.Now())
			})
		})
	}
}
