package simfs

import (
	"fmt"
	"os"
	"sort"
	"strings"
	"syscall"

	"github.com/cossacklabs/acra/keystore/v2/keystore/filesystem/backend/api"

	"verif/sim/kernel"
)

// Store is the shared state of the simulated v2 back end: a flat
// path → bytes map plus one store-wide reader/writer lock (the contract of
// backend/api.Backend). Several SimBackend handles (one per simulated
// process) share one Store.
type Store struct {
	Data    map[string][]byte
	writer  int         // handle id holding the exclusive lock, 0 = none
	readers map[int]int // handle id -> shared lock count
	Writes  [][]byte
	Record  bool
	Touched map[string]struct{}
}

// NewStore makes an empty store.
func NewStore() *Store {
	return &Store{Data: map[string][]byte{}, readers: map[int]int{}, Touched: map[string]struct{}{}}
}

// Clone copies the data (locks are not copied).
func (s *Store) Clone() *Store {
	c := NewStore()
	for k, v := range s.Data {
		c.Data[k] = append([]byte(nil), v...)
	}
	return c
}

// Image is a canonical dump for comparison.
func (s *Store) Image() string {
	ks := make([]string, 0, len(s.Data))
	for k := range s.Data {
		ks = append(ks, k)
	}
	sort.Strings(ks)
	var sb strings.Builder
	for _, k := range ks {
		fmt.Fprintf(&sb, "%s %x\n", k, s.Data[k])
	}
	return sb.String()
}

// Paths lists stored paths, sorted.
func (s *Store) Paths() []string {
	ks := make([]string, 0, len(s.Data))
	for k := range s.Data {
		ks = append(ks, k)
	}
	sort.Strings(ks)
	return ks
}

// ReleaseAll drops every lock held by handle id (process death).
func (s *Store) ReleaseAll(id int) {
	if s.writer == id {
		s.writer = 0
	}
	delete(s.readers, id)
}

// SimBackend is one process's handle on a Store. Every call is a seam.
type SimBackend struct {
	S      *Store
	W      *kernel.World
	Proc   int
	ID     int // unique, non-zero
	closed bool
}

var _ api.Backend = (*SimBackend)(nil)

func norm(p string) string { return strings.ReplaceAll(p, "\\", "/") }

func (b *SimBackend) gate(site, detail string) (error, bool) {
	d := b.W.Seam(b.Proc, site, detail)
	switch d.Kind {
	case kernel.FErr, kernel.FErrPartial:
		// what the directory back end returns for a failed os call: the os error as it is
		return &os.PathError{Op: strings.TrimPrefix(site, "be."), Path: detail, Err: syscall.EIO}, false
	case kernel.FCrashBefore, kernel.FTorn:
		b.W.Crash(b.Proc, site)
	case kernel.FCrashAfter:
		return nil, true
	}
	return nil, false
}

// Get implements api.Backend.
func (b *SimBackend) Get(path string) ([]byte, error) {
	err, ca := b.gate("be.Get", path)
	if err != nil {
		return nil, err
	}
	path = norm(path)
	b.S.Touched[path] = struct{}{}
	d, ok := b.S.Data[path]
	if ca {
		b.W.Crash(b.Proc, "be.Get (after)")
	}
	if !ok {
		return nil, api.ErrNotExist
	}
	return append([]byte(nil), d...), nil
}

// Put implements api.Backend (exclusive create; data write can be torn).
func (b *SimBackend) Put(path string, data []byte) error {
	d := b.W.Seam(b.Proc, "be.Put", fmt.Sprintf("%s len=%d", path, len(data)))
	path = norm(path)
	b.S.Touched[path] = struct{}{}
	_, exists := b.S.Data[path]
	part := int(int64(len(data)) * (d.Arg % 1000) / 1000)
	switch d.Kind {
	case kernel.FErr:
		return &os.PathError{Op: "write", Path: path, Err: syscall.EIO}
	case kernel.FErrPartial:
		if !exists {
			b.S.Data[path] = append([]byte(nil), data[:part]...)
		}
		return fmt.Errorf("be.Put: injected ENOSPC")
	case kernel.FCrashBefore:
		b.W.Crash(b.Proc, "be.Put")
	case kernel.FTorn:
		if !exists {
			b.S.Data[path] = append([]byte(nil), data[:part]...)
		}
		b.W.Crash(b.Proc, "be.Put (torn)")
	}
	if exists {
		return api.ErrExist
	}
	b.S.Data[path] = append([]byte(nil), data...)
	if b.S.Record {
		b.S.Writes = append(b.S.Writes, append([]byte(nil), data...))
	}
	if d.Kind == kernel.FCrashAfter {
		b.W.Crash(b.Proc, "be.Put (after)")
	}
	return nil
}

// ListAll implements api.Backend.
func (b *SimBackend) ListAll() ([]string, error) {
	err, ca := b.gate("be.ListAll", "")
	if err != nil {
		return nil, err
	}
	if ca {
		b.W.Crash(b.Proc, "be.ListAll (after)")
	}
	return b.S.Paths(), nil
}

// Rename implements api.Backend.
func (b *SimBackend) Rename(oldpath, newpath string) error {
	err, ca := b.gate("be.Rename", oldpath+" -> "+newpath)
	if err != nil {
		return err
	}
	oldpath, newpath = norm(oldpath), norm(newpath)
	d, ok := b.S.Data[oldpath]
	if !ok {
		return api.ErrNotExist
	}
	delete(b.S.Data, oldpath)
	b.S.Data[newpath] = d
	b.S.Touched[oldpath] = struct{}{}
	b.S.Touched[newpath] = struct{}{}
	if ca {
		b.W.Crash(b.Proc, "be.Rename (after)")
	}
	return nil
}

// RenameNX implements api.Backend.
func (b *SimBackend) RenameNX(oldpath, newpath string) error {
	err, ca := b.gate("be.RenameNX", oldpath+" -> "+newpath)
	if err != nil {
		return err
	}
	oldpath, newpath = norm(oldpath), norm(newpath)
	d, ok := b.S.Data[oldpath]
	if !ok {
		return api.ErrNotExist
	}
	if _, exists := b.S.Data[newpath]; exists {
		return api.ErrExist
	}
	b.S.Data[newpath] = d
	delete(b.S.Data, oldpath)
	if ca {
		b.W.Crash(b.Proc, "be.RenameNX (after)")
	}
	return nil
}

// Lock implements api.Backend: blocks (parks) until exclusive access.
func (b *SimBackend) Lock() error {
	err, ca := b.gate("be.Lock", "")
	if err != nil {
		return err
	}
	for b.S.writer != 0 || len(b.S.readers) > 0 {
		b.W.Block(b.Proc, "be.Lock")
	}
	b.S.writer = b.ID
	if ca {
		b.W.Crash(b.Proc, "be.Lock (after)") // dies holding the lock; the kernel releases it
	}
	return nil
}

// RLock implements api.Backend.
func (b *SimBackend) RLock() error {
	err, ca := b.gate("be.RLock", "")
	if err != nil {
		return err
	}
	for b.S.writer != 0 {
		b.W.Block(b.Proc, "be.RLock")
	}
	b.S.readers[b.ID]++
	if ca {
		b.W.Crash(b.Proc, "be.RLock (after)")
	}
	return nil
}

// Unlock implements api.Backend.
func (b *SimBackend) Unlock() error {
	if b.S.writer != b.ID {
		return fmt.Errorf("be.Unlock: lock not held")
	}
	b.S.writer = 0
	b.W.Event(b.Proc, "be.Unlock", "")
	b.W.Progress()
	return nil
}

// RUnlock implements api.Backend.
func (b *SimBackend) RUnlock() error {
	if b.S.readers[b.ID] == 0 {
		return fmt.Errorf("be.RUnlock: lock not held")
	}
	b.S.readers[b.ID]--
	if b.S.readers[b.ID] == 0 {
		delete(b.S.readers, b.ID)
	}
	b.W.Event(b.Proc, "be.RUnlock", "")
	b.W.Progress()
	return nil
}

// Close implements api.Backend.
func (b *SimBackend) Close() error {
	b.S.ReleaseAll(b.ID)
	b.W.Progress()
	b.closed = true
	return nil
}
