// Package simfs is the simulated disk under both keystores (DESIGN.md
// Appendix A): an in-memory POSIX-like tree with modes and hard links,
// sorted listings and PRNG-named temporary files. It implements
// keystore/filesystem.Storage.
package simfs

import (
	"fmt"
	"io/fs"
	"os"
	"path/filepath"
	"sort"
	"strings"
	"syscall"
	"time"
)

type inode struct {
	data  []byte
	mode  os.FileMode
	nlink int
}

// FS is the simulated disk. Not safe for real concurrency: the simulator
// runs one process at a time.
type FS struct {
	files map[string]*inode
	dirs  map[string]os.FileMode
	// NameRand supplies digits for temp names (from the plan's PRNG).
	NameRand func() uint32
	// Touched records every path handed to any call (confinement oracle).
	Touched map[string]struct{}
	// Writes records every byte string written (no-secret-in-clear oracle).
	Writes [][]byte
	Record bool
}

// New makes an empty disk with root "/".
func New(nameRand func() uint32) *FS {
	return &FS{files: map[string]*inode{}, dirs: map[string]os.FileMode{"/": 0o755}, NameRand: nameRand, Touched: map[string]struct{}{}}
}

// Clone makes an independent copy (hard links preserved).
func (f *FS) Clone() *FS {
	g := New(f.NameRand)
	m := map[*inode]*inode{}
	for p, in := range f.files {
		c, ok := m[in]
		if !ok {
			c = &inode{append([]byte(nil), in.data...), in.mode, in.nlink}
			m[in] = c
		}
		g.files[p] = c
	}
	for p, mode := range f.dirs {
		g.dirs[p] = mode
	}
	return g
}

// Image is a canonical dump of the whole tree for byte comparison.
func (f *FS) Image() string {
	var ps []string
	for p := range f.files {
		ps = append(ps, p)
	}
	for p := range f.dirs {
		ps = append(ps, p+"/")
	}
	sort.Strings(ps)
	var sb strings.Builder
	for _, p := range ps {
		if strings.HasSuffix(p, "/") {
			fmt.Fprintf(&sb, "%s %o\n", p, f.dirs[strings.TrimSuffix(p, "/")]&os.ModePerm)
			if p == "//" {
				continue
			}
		} else {
			in := f.files[p]
			fmt.Fprintf(&sb, "%s %o %x\n", p, in.mode&os.ModePerm, in.data)
		}
	}
	return sb.String()
}

// Paths lists all file paths, sorted.
func (f *FS) Paths() []string {
	var ps []string
	for p := range f.files {
		ps = append(ps, p)
	}
	sort.Strings(ps)
	return ps
}

// Dirs lists all directory paths, sorted.
func (f *FS) Dirs() []string {
	var ps []string
	for p := range f.dirs {
		ps = append(ps, p)
	}
	sort.Strings(ps)
	return ps
}

// Peek returns file content without recording (harness use).
func (f *FS) Peek(path string) ([]byte, os.FileMode, bool) {
	in, ok := f.files[clean(path)]
	if !ok {
		return nil, 0, false
	}
	return in.data, in.mode, true
}

// Poke replaces file content directly (at-rest corruption fault).
func (f *FS) Poke(path string, data []byte) {
	p := clean(path)
	if in, ok := f.files[p]; ok {
		in.data = append([]byte(nil), data...)
		return
	}
	f.files[p] = &inode{append([]byte(nil), data...), 0o600, 1}
}

// Unlink removes a file directly (harness use).
func (f *FS) Unlink(path string) { delete(f.files, clean(path)) }

// DirMode returns a directory's mode.
func (f *FS) DirMode(path string) (os.FileMode, bool) {
	m, ok := f.dirs[clean(path)]
	return m, ok
}

func clean(p string) string {
	if !strings.HasPrefix(p, "/") {
		p = "/" + p
	}
	return filepath.Clean(p)
}

func (f *FS) touch(ps ...string) {
	for _, p := range ps {
		f.Touched[clean(p)] = struct{}{}
	}
}

func pathErr(op, path string, errno syscall.Errno) error {
	return &os.PathError{Op: op, Path: path, Err: errno}
}

func linkErr(op, a, b string, errno syscall.Errno) error {
	return &os.LinkError{Op: op, Old: a, New: b, Err: errno}
}

type info struct {
	name string
	size int64
	mode os.FileMode
	dir  bool
}

func (i info) Name() string { return i.name }
func (i info) Size() int64  { return i.size }
func (i info) Mode() os.FileMode {
	if i.dir {
		return i.mode | os.ModeDir
	}
	return i.mode
}
func (i info) ModTime() time.Time { return time.Time{} }
func (i info) IsDir() bool        { return i.dir }
func (i info) Sys() any           { return nil }

func (f *FS) parentOK(p string) bool {
	_, ok := f.dirs[filepath.Dir(p)]
	return ok
}

// Stat implements Storage.
func (f *FS) Stat(path string) (os.FileInfo, error) {
	f.touch(path)
	p := clean(path)
	if m, ok := f.dirs[p]; ok {
		return info{filepath.Base(p), 0, m, true}, nil
	}
	if in, ok := f.files[p]; ok {
		return info{filepath.Base(p), int64(len(in.data)), in.mode, false}, nil
	}
	return nil, pathErr("stat", path, syscall.ENOENT)
}

// Exists implements Storage.
func (f *FS) Exists(path string) (bool, error) {
	_, err := f.Stat(path)
	if err == nil {
		return true, nil
	}
	if os.IsNotExist(err) {
		return false, nil
	}
	return false, err
}

// ReadDir implements Storage (sorted by name).
func (f *FS) ReadDir(path string) ([]os.FileInfo, error) {
	f.touch(path)
	p := clean(path)
	if _, ok := f.dirs[p]; !ok {
		if _, isFile := f.files[p]; isFile {
			return nil, pathErr("open", path, syscall.ENOTDIR)
		}
		return nil, pathErr("open", path, syscall.ENOENT)
	}
	var out []os.FileInfo
	for q, in := range f.files {
		if filepath.Dir(q) == p {
			out = append(out, info{filepath.Base(q), int64(len(in.data)), in.mode, false})
		}
	}
	for q, m := range f.dirs {
		if q != p && filepath.Dir(q) == p {
			out = append(out, info{filepath.Base(q), 0, m, true})
		}
	}
	sort.Slice(out, func(i, j int) bool { return out[i].Name() < out[j].Name() })
	return out, nil
}

// MkdirAll implements Storage.
func (f *FS) MkdirAll(path string, perm os.FileMode) error {
	f.touch(path)
	p := clean(path)
	var todo []string
	for q := p; ; q = filepath.Dir(q) {
		if _, ok := f.files[q]; ok {
			return pathErr("mkdir", q, syscall.ENOTDIR)
		}
		if _, ok := f.dirs[q]; ok {
			break
		}
		todo = append(todo, q)
		if q == "/" {
			break
		}
	}
	for _, q := range todo {
		f.dirs[q] = perm
	}
	return nil
}

// Rename implements Storage (atomic replace).
func (f *FS) Rename(oldpath, newpath string) error {
	f.touch(oldpath, newpath)
	o, n := clean(oldpath), clean(newpath)
	if m, ok := f.dirs[o]; ok {
		if _, exists := f.files[n]; exists {
			return linkErr("rename", oldpath, newpath, syscall.ENOTDIR)
		}
		if _, exists := f.dirs[n]; exists {
			return linkErr("rename", oldpath, newpath, syscall.EEXIST)
		}
		if !f.parentOK(n) {
			return linkErr("rename", oldpath, newpath, syscall.ENOENT)
		}
		// move subtree
		for q, in := range f.files {
			if strings.HasPrefix(q, o+"/") {
				delete(f.files, q)
				f.files[n+q[len(o):]] = in
			}
		}
		for q, dm := range f.dirs {
			if strings.HasPrefix(q, o+"/") {
				delete(f.dirs, q)
				f.dirs[n+q[len(o):]] = dm
			}
		}
		delete(f.dirs, o)
		f.dirs[n] = m
		return nil
	}
	in, ok := f.files[o]
	if !ok {
		return linkErr("rename", oldpath, newpath, syscall.ENOENT)
	}
	if _, isDir := f.dirs[n]; isDir {
		return linkErr("rename", oldpath, newpath, syscall.EISDIR)
	}
	if !f.parentOK(n) {
		return linkErr("rename", oldpath, newpath, syscall.ENOENT)
	}
	if old, exists := f.files[n]; exists {
		if old == in {
			return nil // same inode: POSIX no-op
		}
		old.nlink--
	}
	f.files[n] = in
	delete(f.files, o)
	return nil
}

func (f *FS) tempName(pattern string) string {
	return fmt.Sprintf("%s%09d", pattern, f.NameRand()%1000000000)
}

// TempFile implements Storage.
func (f *FS) TempFile(pattern string, perm os.FileMode) (string, error) {
	f.touch(pattern)
	if !f.parentOK(clean(pattern)) {
		return "", pathErr("open", pattern, syscall.ENOENT)
	}
	for {
		name := f.tempName(pattern)
		p := clean(name)
		if _, ok := f.files[p]; ok {
			continue
		}
		if _, ok := f.dirs[p]; ok {
			continue
		}
		f.files[p] = &inode{nil, perm, 1}
		f.touch(name)
		return name, nil
	}
}

// TempDir implements Storage.
func (f *FS) TempDir(pattern string, perm os.FileMode) (string, error) {
	f.touch(pattern)
	if !f.parentOK(clean(pattern)) {
		return "", pathErr("mkdir", pattern, syscall.ENOENT)
	}
	for {
		name := f.tempName(pattern)
		p := clean(name)
		if _, ok := f.files[p]; ok {
			continue
		}
		if _, ok := f.dirs[p]; ok {
			continue
		}
		f.dirs[p] = perm
		f.touch(name)
		return name, nil
	}
}

// Link implements Storage.
func (f *FS) Link(oldpath, newpath string) error {
	f.touch(oldpath, newpath)
	o, n := clean(oldpath), clean(newpath)
	in, ok := f.files[o]
	if !ok {
		if _, isDir := f.dirs[o]; isDir {
			return linkErr("link", oldpath, newpath, syscall.EPERM)
		}
		return linkErr("link", oldpath, newpath, syscall.ENOENT)
	}
	if _, exists := f.files[n]; exists {
		return linkErr("link", oldpath, newpath, syscall.EEXIST)
	}
	if _, exists := f.dirs[n]; exists {
		return linkErr("link", oldpath, newpath, syscall.EEXIST)
	}
	if !f.parentOK(n) {
		return linkErr("link", oldpath, newpath, syscall.ENOENT)
	}
	in.nlink++
	f.files[n] = in
	return nil
}

// Copy implements Storage (fails if dst exists).
func (f *FS) Copy(src, dst string) error {
	return f.CopyN(src, dst, -1)
}

// CopyN copies at most n bytes (n<0: all) — the torn-write primitive.
func (f *FS) CopyN(src, dst string, n int) error {
	f.touch(src, dst)
	s, d := clean(src), clean(dst)
	in, ok := f.files[s]
	if !ok {
		return pathErr("open", src, syscall.ENOENT)
	}
	if _, exists := f.files[d]; exists {
		return pathErr("open", dst, syscall.EEXIST)
	}
	if _, exists := f.dirs[d]; exists {
		return pathErr("open", dst, syscall.EEXIST)
	}
	if !f.parentOK(d) {
		return pathErr("open", dst, syscall.ENOENT)
	}
	data := in.data
	if n >= 0 && n < len(data) {
		data = data[:n]
	}
	f.files[d] = &inode{append([]byte(nil), data...), in.mode & os.ModePerm, 1}
	if f.Record {
		f.Writes = append(f.Writes, append([]byte(nil), data...))
	}
	return nil
}

// ReadFile implements Storage.
func (f *FS) ReadFile(path string) ([]byte, error) {
	f.touch(path)
	p := clean(path)
	in, ok := f.files[p]
	if !ok {
		if _, isDir := f.dirs[p]; isDir {
			return nil, pathErr("read", path, syscall.EISDIR)
		}
		return nil, pathErr("open", path, syscall.ENOENT)
	}
	return append([]byte(nil), in.data...), nil
}

// WriteFile implements Storage.
func (f *FS) WriteFile(path string, data []byte, perm os.FileMode) error {
	return f.WriteFileN(path, data, perm, -1)
}

// WriteFileN truncates/creates the file and writes at most n bytes of data
// (n<0: all) — the torn-write primitive.
func (f *FS) WriteFileN(path string, data []byte, perm os.FileMode, n int) error {
	f.touch(path)
	p := clean(path)
	if _, isDir := f.dirs[p]; isDir {
		return pathErr("open", path, syscall.EISDIR)
	}
	if !f.parentOK(p) {
		return pathErr("open", path, syscall.ENOENT)
	}
	if n >= 0 && n < len(data) {
		data = data[:n]
	}
	if f.Record {
		f.Writes = append(f.Writes, append([]byte(nil), data...))
	}
	if in, ok := f.files[p]; ok {
		in.data = append([]byte(nil), data...) // mode of an existing file is kept
		return nil
	}
	f.files[p] = &inode{append([]byte(nil), data...), perm, 1}
	return nil
}

// Remove implements Storage.
func (f *FS) Remove(path string) error {
	f.touch(path)
	p := clean(path)
	if in, ok := f.files[p]; ok {
		in.nlink--
		delete(f.files, p)
		return nil
	}
	if _, ok := f.dirs[p]; ok {
		for q := range f.files {
			if filepath.Dir(q) == p {
				return pathErr("remove", path, syscall.ENOTEMPTY)
			}
		}
		for q := range f.dirs {
			if q != p && filepath.Dir(q) == p {
				return pathErr("remove", path, syscall.ENOTEMPTY)
			}
		}
		delete(f.dirs, p)
		return nil
	}
	return pathErr("remove", path, syscall.ENOENT)
}

// RemoveAll implements Storage.
func (f *FS) RemoveAll(path string) error {
	f.touch(path)
	p := clean(path)
	for q, in := range f.files {
		if q == p || strings.HasPrefix(q, p+"/") {
			in.nlink--
			delete(f.files, q)
		}
	}
	for q := range f.dirs {
		if q == p || strings.HasPrefix(q, p+"/") {
			if q != "/" {
				delete(f.dirs, q)
			}
		}
	}
	return nil
}

var _ fs.FileInfo = info{}
