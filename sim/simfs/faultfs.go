package simfs

import (
	"fmt"
	"os"
	"syscall"

	"verif/sim/kernel"
)

// FaultFS is the seam wrapper one simulated process uses to reach the shared
// disk: every call is a yield point and a fault point (DESIGN.md §2.4).
type FaultFS struct {
	FS   *FS
	W    *kernel.World
	Proc int
	// Shared marks a handle used by several simulated processes (goroutines
	// of one server): the calling process is then the one running now.
	Shared bool
}

func (f *FaultFS) proc() int {
	if f.Shared {
		return f.W.Cur
	}
	return f.Proc
}

func errnoFor(arg int64) syscall.Errno {
	switch arg % 4 {
	case 0:
		return syscall.EIO
	case 1:
		return syscall.ENOSPC
	case 2:
		return syscall.EACCES
	default:
		return syscall.EDQUOT
	}
}

// gate handles the non-data decisions common to all calls. It returns an
// error to return instead of calling, and whether to crash after the call.
func (f *FaultFS) gate(site, detail, path string) (error, bool) {
	d := f.W.Seam(f.proc(), site, detail)
	switch d.Kind {
	case kernel.FErr, kernel.FErrPartial:
		return &os.PathError{Op: site, Path: path, Err: errnoFor(d.Arg)}, false
	case kernel.FCrashBefore, kernel.FTorn:
		f.W.Crash(f.proc(), site)
	case kernel.FCrashAfter:
		return nil, true
	}
	return nil, false
}

func (f *FaultFS) after(site string, crash bool) {
	if crash {
		f.W.Crash(f.proc(), site+" (after)")
	}
}

// Stat implements Storage.
func (f *FaultFS) Stat(path string) (os.FileInfo, error) {
	err, ca := f.gate("fs.Stat", path, path)
	if err != nil {
		return nil, err
	}
	r, rerr := f.FS.Stat(path)
	f.after("fs.Stat", ca)
	return r, rerr
}

// Exists implements Storage.
func (f *FaultFS) Exists(path string) (bool, error) {
	err, ca := f.gate("fs.Exists", path, path)
	if err != nil {
		return false, err
	}
	r, rerr := f.FS.Exists(path)
	f.after("fs.Exists", ca)
	return r, rerr
}

// ReadDir implements Storage.
func (f *FaultFS) ReadDir(path string) ([]os.FileInfo, error) {
	err, ca := f.gate("fs.ReadDir", path, path)
	if err != nil {
		return nil, err
	}
	r, rerr := f.FS.ReadDir(path)
	f.after("fs.ReadDir", ca)
	return r, rerr
}

// MkdirAll implements Storage.
func (f *FaultFS) MkdirAll(path string, perm os.FileMode) error {
	err, ca := f.gate("fs.MkdirAll", fmt.Sprintf("%s %o", path, perm), path)
	if err != nil {
		return err
	}
	err = f.FS.MkdirAll(path, perm)
	f.after("fs.MkdirAll", ca)
	return err
}

// Rename implements Storage.
func (f *FaultFS) Rename(oldpath, newpath string) error {
	err, ca := f.gate("fs.Rename", oldpath+" -> "+newpath, oldpath)
	if err != nil {
		return err
	}
	err = f.FS.Rename(oldpath, newpath)
	f.after("fs.Rename", ca)
	return err
}

// TempFile implements Storage.
func (f *FaultFS) TempFile(pattern string, perm os.FileMode) (string, error) {
	err, ca := f.gate("fs.TempFile", fmt.Sprintf("%s %o", pattern, perm), pattern)
	if err != nil {
		return "", err
	}
	name, err := f.FS.TempFile(pattern, perm)
	f.after("fs.TempFile", ca)
	return name, err
}

// TempDir implements Storage.
func (f *FaultFS) TempDir(pattern string, perm os.FileMode) (string, error) {
	err, ca := f.gate("fs.TempDir", pattern, pattern)
	if err != nil {
		return "", err
	}
	name, err := f.FS.TempDir(pattern, perm)
	f.after("fs.TempDir", ca)
	return name, err
}

// Link implements Storage.
func (f *FaultFS) Link(oldpath, newpath string) error {
	err, ca := f.gate("fs.Link", oldpath+" -> "+newpath, oldpath)
	if err != nil {
		return err
	}
	err = f.FS.Link(oldpath, newpath)
	f.after("fs.Link", ca)
	return err
}

// Copy implements Storage.
func (f *FaultFS) Copy(src, dst string) error {
	d := f.W.Seam(f.proc(), "fs.Copy", src+" -> "+dst)
	switch d.Kind {
	case kernel.FErr:
		return &os.PathError{Op: "copy", Path: dst, Err: errnoFor(d.Arg)}
	case kernel.FErrPartial:
		n := f.partLen(src, d.Arg)
		_ = f.FS.CopyN(src, dst, n)
		return &os.PathError{Op: "copy", Path: dst, Err: syscall.ENOSPC}
	case kernel.FCrashBefore:
		f.W.Crash(f.proc(), "fs.Copy")
	case kernel.FTorn:
		_ = f.FS.CopyN(src, dst, f.partLen(src, d.Arg))
		f.W.Crash(f.proc(), "fs.Copy (torn)")
	}
	err := f.FS.Copy(src, dst)
	f.after("fs.Copy", d.Kind == kernel.FCrashAfter)
	return err
}

func (f *FaultFS) partLen(src string, permille int64) int {
	data, _, ok := f.FS.Peek(src)
	if !ok {
		return 0
	}
	return int(int64(len(data)) * (permille % 1000) / 1000)
}

// ReadFile implements Storage.
func (f *FaultFS) ReadFile(path string) ([]byte, error) {
	err, ca := f.gate("fs.ReadFile", path, path)
	if err != nil {
		return nil, err
	}
	r, rerr := f.FS.ReadFile(path)
	f.after("fs.ReadFile", ca)
	return r, rerr
}

// WriteFile implements Storage.
func (f *FaultFS) WriteFile(path string, data []byte, perm os.FileMode) error {
	d := f.W.Seam(f.proc(), "fs.WriteFile", fmt.Sprintf("%s len=%d %o", path, len(data), perm))
	part := int(int64(len(data)) * (d.Arg % 1000) / 1000)
	switch d.Kind {
	case kernel.FErr:
		return &os.PathError{Op: "write", Path: path, Err: errnoFor(d.Arg)}
	case kernel.FErrPartial:
		_ = f.FS.WriteFileN(path, data, perm, part)
		return &os.PathError{Op: "write", Path: path, Err: syscall.ENOSPC}
	case kernel.FCrashBefore:
		f.W.Crash(f.proc(), "fs.WriteFile")
	case kernel.FTorn:
		_ = f.FS.WriteFileN(path, data, perm, part)
		f.W.Crash(f.proc(), "fs.WriteFile (torn)")
	}
	err := f.FS.WriteFile(path, data, perm)
	f.after("fs.WriteFile", d.Kind == kernel.FCrashAfter)
	return err
}

// Remove implements Storage.
func (f *FaultFS) Remove(path string) error {
	err, ca := f.gate("fs.Remove", path, path)
	if err != nil {
		return err
	}
	err = f.FS.Remove(path)
	f.after("fs.Remove", ca)
	return err
}

// RemoveAll implements Storage.
func (f *FaultFS) RemoveAll(path string) error {
	err, ca := f.gate("fs.RemoveAll", path, path)
	if err != nil {
		return err
	}
	err = f.FS.RemoveAll(path)
	f.after("fs.RemoveAll", ca)
	return err
}
