package pxw

import (
	"bytes"
	"encoding/binary"
	"encoding/hex"
	"fmt"
	"github.com/cossacklabs/acra/acrablock"
	"github.com/cossacklabs/acra/acrastruct"
	"github.com/cossacklabs/acra/crypto"
	"github.com/cossacklabs/themis/gothemis/keys"
	"strconv"
	"strings"
	"testing"
	"time"

	"verif/sim/kernel"
	"verif/sim/ksw"
)

// C09, C11 and C19 ride on the C04 world (real PgProxy between scripted
// clients and the simulated PostgreSQL) with workloads and oracles of their
// own. Readers: the owner, a client with other keys, a client without keys.

const nokeys = "client_nokeys"

// colWorld builds a world with table t1(id, plain, cols...) for the given columns.
func colWorld(w *kernel.World, plan *kernel.Plan, rng *kernel.RNG, cols []colKind) (*PgWorld, []string, error) {
	pw, err := NewPgWorld(w, rng, PgWorldConfig{SchemaYAML: schemaYAML(cols), Clients: []string{owner, stranger}, ChunkMode: int(plan.Sw("chunk"))})
	if err != nil {
		return nil, nil, err
	}
	dbCols := []Col{{"id", TInt4}, {"plain", TText}}
	names := []string{"id", "plain"}
	for _, c := range cols {
		dbCols = append(dbCols, Col{c.Name, c.dbType()})
		names = append(names, c.Name)
	}
	pw.DB.AddTable("t1", dbCols...)
	return pw, names, nil
}

func insertStmt(names []string, id int, vals []string, cols []colKind, useParams bool) Stmt {
	st := Stmt{Extended: useParams}
	parts := []string{strconv.Itoa(id), "'p'"}
	if useParams {
		parts = []string{"$1", "$2"}
		st.Params = [][]byte{[]byte(strconv.Itoa(id)), []byte("p")}
	}
	for i, v := range vals {
		if useParams {
			st.Params = append(st.Params, []byte(v))
			parts = append(parts, fmt.Sprintf("$%d", len(st.Params)))
		} else {
			parts = append(parts, literalFor(cols[i], v, 0))
		}
	}
	st.SQL = "INSERT INTO t1 (" + strings.Join(names, ", ") + ") VALUES (" + strings.Join(parts, ", ") + ")"
	return st
}

// ---------------------------------------------------------------------
// C11 — masked columns show only the allowed window.

type C11 struct{}

func (C11) ID() string { return "C11" }

func (C11) Explore(x *kernel.Explorer, seed uint64) {
	r := kernel.NewRNG(seed, 0xc11)
	for i := 0; i < 4 && !x.Expired(); i++ {
		plan := &kernel.Plan{Prop: "C11", Seed: kernel.Mix(seed, uint64(i)), Swarm: map[string]int64{"idlenth": int64([]int{0, 0, 0, 2, 3}[r.Intn(5)]), "pgreexec": int64(r.Intn(2)), "fetch": int64([]int{0, 0, 1, 2}[r.Intn(4)]),
			"chunk": int64(r.Intn(4)), "win": int64(r.Intn(12)), "side": int64(r.Intn(2)), "env": int64(r.Intn(2)),
			"pattern": int64(r.Intn(4)), "params": int64(r.Intn(2)), "binary": int64(r.Intn(2)), "sqlprep": int64(r.Intn(3)), "mysql": int64(r.Intn(3) / 2), "depeof": int64(r.Intn(2)), "rawmy": int64(r.Intn(2)), "reexec": int64(r.Intn(2)), "wyield": int64(r.Intn(2))}}
		n := 1 + r.Intn(5)
		for j := 0; j < n; j++ {
			// value length relative to the window: shorter, equal, longer
			plan.Ops = append(plan.Ops, kernel.Op{ID: j + 1, Kind: "row", A: []int64{int64(r.Intn(30)), int64(r.Intn(4))}})
		}
		x.Exec(plan)
	}
}

var c11Patterns = []string{"xxxx", "*", "MASKED-VALUE", "%%%"}

func (C11) Run(t *testing.T, plan *kernel.Plan, keepLog bool) *kernel.Result {
	w := kernel.NewWorld(plan, keepLog)
	Bubble(t, plan.Seed, func() {
		start := time.Now()
		rng := kernel.NewRNG(plan.Seed, 0xd11c)
		win := int(plan.Sw("win"))
		side := []string{"left", "right"}[plan.Sw("side")%2]
		pattern := c11Patterns[int(plan.Sw("pattern"))%len(c11Patterns)]
		col := colKind{Name: "c1", Envelope: []string{"acrablock", "acrastruct"}[plan.Sw("env")%2], Mask: true, MaskLen: win, MaskSide: side}
		yaml := strings.ReplaceAll(schemaYAML([]colKind{col}), fmt.Sprintf("masking: %q", maskPat), fmt.Sprintf("masking: %q", pattern))
		mysql := plan.Sw("mysql") == 1
		dec := func(b []byte) []byte {
			if mysql {
				return b // binary columns arrive as they are
			}
			return decodeClientCell(17, 0, b)
		}
		pw, err := NewPgWorld(w, rng, PgWorldConfig{SchemaYAML: yaml, Clients: []string{owner, stranger}, ChunkMode: int(plan.Sw("chunk")),
			MySQL: mysql, MyDeprecateEOF: plan.Sw("depeof") == 1})
		if err != nil {
			w.Violate("C11", "world-builds", "pg", err.Error())
			return
		}
		pw.DB.AddTable("t1", Col{"id", TInt4}, Col{"plain", TText}, Col{"c1", TBytea})
		names := []string{"id", "plain", "c1"}
		// values: visible part + hidden part, both recognisable
		var values []string
		var script []Stmt
		for i, op := range plan.Ops {
			n := int(op.Arg(0, 0))
			v := ""
			for len(v) < n {
				v += fmt.Sprintf("V%dq%dZ", i, len(v))
			}
			v = v[:n]
			switch op.Arg(1, 0) {
			case 1:
				v += pattern // value containing the pattern
			case 2:
				v = "%%%" + v // value starting with an envelope tag
			}
			values = append(values, v)
			if mysql {
				script = append(script, myInsertStmt(names, i+1, "p", []string{v}, []colKind{col}, plan.Sw("params") == 1, i%2))
				continue
			}
			script = append(script, insertStmt(names, i+1, []string{v}, []colKind{col}, plan.Sw("params") == 1))
		}
		for i := range values {
			script = append(script, Stmt{SQL: fmt.Sprintf("SELECT id, plain, c1 FROM t1 WHERE id = %d", i+1), Tag: "read"})
		}
		run := pw.RunSession(owner, script)
		if w.Res.Cut {
			return
		}
		for _, p := range pw.Panics {
			w.Violate("C14", "no-panic", "pg/proxy", p)
		}
		site := fmt.Sprintf("pg/%s/%s", col.Envelope, side)
		if mysql {
			site = "mysql" + site[2:]
		}
		if run.Stuck || run.ClientErr != "" {
			w.Violate("C11", "session-completes", site, fmt.Sprintf("%q %v", run.ClientErr, run.ProxyErrs))
			return
		}
		// owner receives the complete original
		for i, v := range values {
			res := run.Results[len(values)+i]
			if res.Err != "" || len(res.Rows) != 1 {
				w.Violate("C11", "owner-gets-original", site, fmt.Sprintf("value %q: err=%q rows=%d", v, res.Err, len(res.Rows)))
				continue
			}
			got := dec(res.Rows[0][2])
			if string(got) != v {
				w.Violate("C11", "owner-gets-original", site, fmt.Sprintf("window %d %s pattern %q: wrote %q, owner reads %q", win, side, pattern, v, got))
			}
		}
		// stored form: values not longer than the window are protected in full;
		// longer ones keep exactly the window in clear
		t1 := pw.DB.Tables["t1"]
		for i, v := range values {
			if i >= len(t1.Rows) || t1.Rows[i][2] == nil {
				continue
			}
			cell := t1.Rows[i][2]
			hidden := v
			if len(v) > win {
				if side == "left" {
					hidden = v[win:]
				} else {
					hidden = v[:len(v)-win]
				}
			}
			if len(hidden) >= 5 && bytes.Contains(cell, []byte(hidden)) {
				w.Violate("C11", "hidden-part-stored-protected", site, fmt.Sprintf("window %d %s: stored cell of %q contains the hidden part %q in clear", win, side, v, hidden))
			}
			if len(v) <= win && len(v) >= 5 && bytes.Contains(cell, []byte(v)) {
				w.Violate("C11", "short-value-protected-in-full", site, fmt.Sprintf("window %d: value %q (not longer than the window) is stored in clear", win, v))
			}
		}
		// readers that cannot decrypt
		for _, reader := range []string{stranger, nokeys} {
			var rs []Stmt
			for i := range values {
				rs = append(rs, Stmt{SQL: fmt.Sprintf("SELECT id, plain, c1 FROM t1 WHERE id = %d", i+1), Extended: plan.Sw("binary") == 1,
					ResultFormats: map[bool][]int16{true: {1}, false: nil}[plan.Sw("binary") == 1]})
				if mysql && plan.Sw("binary") != 1 && plan.Sw("sqlprep") > 0 {
					// SQL-level prepared statement, from a literal or from a user variable
					text := fmt.Sprintf("SELECT id, plain, c1 FROM t1 WHERE id = %d", i+1)
					name := fmt.Sprintf("sp%d", i)
					pre := []string{fmt.Sprintf("PREPARE %s FROM '%s'", name, text)}
					if plan.Sw("sqlprep") == 2 {
						pre = []string{fmt.Sprintf("SET @q%d = '%s'", i, text), fmt.Sprintf("PREPARE %s FROM @q%d", name, i)}
					}
					rs[len(rs)-1] = Stmt{Pre: pre, SQL: "EXECUTE " + name}
				}
			}
			rrun := pw.RunSession(reader, rs)
			for i, v := range values {
				res := rrun.Results[i]
				rsite := site + "/" + map[string]string{stranger: "other-keys", nokeys: "no-keys"}[reader]
				if res.Err != "" || len(res.Rows) != 1 {
					w.Violate("C11", "non-decrypting-reader-gets-window-and-mask", rsite, fmt.Sprintf("value %q: err=%q rows=%d", v, res.Err, len(res.Rows)))
					continue
				}
				got := res.Rows[0][2]
				if plan.Sw("binary") != 1 {
					got = dec(got)
				}
				var want string
				switch {
				case len(v) <= win:
					want = pattern
				case side == "left":
					want = v[:win] + pattern
				default:
					want = pattern + v[len(v)-win:]
				}
				if v == "" || i >= len(t1.Rows) || t1.Rows[i][2] == nil {
					continue
				}
				cell := t1.Rows[i][2]
				// the clear window is part of the stored cell by design; the rest is the envelope
				if len(v) > win && len(cell) >= win {
					if side == "left" {
						cell = cell[win:]
					} else {
						cell = cell[:len(cell)-win]
					}
				}
				leak := false
				for k := 0; k+8 <= len(cell); k += 4 {
					if bytes.Contains(got, cell[k:k+8]) {
						leak = true
					}
				}
				if leak {
					w.Violate("C11", "no-ciphertext-byte-to-reader", rsite, fmt.Sprintf("window %d %s: reader received bytes of the stored envelope: %.60q", win, side, got))
				} else if string(got) != want {
					w.Violate("C11", "non-decrypting-reader-gets-window-and-mask", rsite, fmt.Sprintf("window %d %s pattern %q value %q: reader got %.80q, want %q", win, side, pattern, v, got, want))
				}
			}
		}
		w.State(fmt.Sprintf("%s win=%d pat=%s", site, win, pattern))
		w.Res.SimNanos = int64(time.Since(start))
	})
	return w.Finish()
}

// ---------------------------------------------------------------------
// C19 — typed columns come back in the declared type or per the failure policy.

type C19 struct{}

func (C19) ID() string { return "C19" }

var c19Types = []string{"str", "bytes", "int32", "int64"}
var c19Policies = []string{"ciphertext", "default_value", "error", ""}
var c19OID = map[string]uint32{"str": 25, "bytes": 17, "int32": 23, "int64": 20}

func (C19) Explore(x *kernel.Explorer, seed uint64) {
	r := kernel.NewRNG(seed, 0xc19)
	for i := 0; i < 4 && !x.Expired(); i++ {
		plan := &kernel.Plan{Prop: "C19", Seed: kernel.Mix(seed, uint64(i)), Swarm: map[string]int64{"idlenth": int64([]int{0, 0, 0, 2, 3}[r.Intn(5)]), "pgreexec": int64(r.Intn(2)), "fetch": int64([]int{0, 0, 1, 2}[r.Intn(4)]),
			"chunk": int64(r.Intn(4)), "type": int64(r.Intn(4)), "policy": int64(r.Intn(4)), "env": int64(r.Intn(2)),
			"binary": int64(r.Intn(2)), "params": int64(r.Intn(2)), "describe": int64(r.Intn(2)), "extra": int64(r.Intn(2)), "mysql": int64(r.Intn(3) / 2), "depeof": int64(r.Intn(2)), "rawmy": int64(r.Intn(2)), "reexec": int64(r.Intn(2)), "wyield": int64(r.Intn(2)),
			"mixed": int64(r.Intn(4) / 3), "type2": int64(r.Intn(4)), "policy2": int64(r.Intn(4)), "valseed": int64(r.Intn(8))}}
		n := 1 + r.Intn(4)
		for j := 0; j < n; j++ {
			plan.Ops = append(plan.Ops, kernel.Op{ID: j + 1, Kind: "row", A: []int64{int64(r.Intn(9))}})
		}
		x.Exec(plan)
	}
}

func c19Value(typ string, k int, row int) string {
	if k%9 == 8 && (typ == "str" || typ == "bytes") {
		return "" // the empty value
	}
	switch typ {
	case "int32":
		return []string{"0", "1", "-1", "2147483647", "-2147483648", "1100000007", "42", "-99999"}[k%8]
	case "int64":
		return []string{"0", "1", "-1", "9223372036854775807", "-9223372036854775808", "770000000000001", "2147483648", "-5"}[k%8]
	case "bytes":
		// printable only: values travel as SQL literals and text-format parameters here
		return []string{"MKbytes-marker-val", "MKbytes with space", "x", "MKbytes%%%tag-inside", "MKbytes-4", "MKbytes-5", "MKbytes-6", "MKbytes-7"}[k%8] + strconv.Itoa(row)
	}
	return []string{"MKstr-marker-value", "with 'quote' MKstr", "x", "ключ-MKstr-unicode", "MKstr-4", "MKstr-5", "MKstr-6", "MKstr-7"}[k%8] + strconv.Itoa(row)
}

func fieldOID(res StmtResult, i int) uint32 {
	if i < len(res.Fields) {
		return res.Fields[i].DataTypeOID
	}
	return 0
}

// c19Decode decodes a result cell of a declared type in a result format to text.
func c19Decode(typ string, format int16, cell []byte) (string, error) {
	if format == 0 {
		if typ == "bytes" {
			b, err := decodeBytea(cell)
			return string(b), err
		}
		return string(cell), nil
	}
	switch typ {
	case "int32":
		if len(cell) != 4 {
			return "", fmt.Errorf("binary int4 of %d bytes", len(cell))
		}
		return strconv.FormatInt(int64(int32(binary.BigEndian.Uint32(cell))), 10), nil
	case "int64":
		if len(cell) != 8 {
			return "", fmt.Errorf("binary int8 of %d bytes", len(cell))
		}
		return strconv.FormatInt(int64(binary.BigEndian.Uint64(cell)), 10), nil
	}
	return string(cell), nil
}

func (C19) Run(t *testing.T, plan *kernel.Plan, keepLog bool) *kernel.Result {
	if plan.Sw("mixed") == 1 {
		return c19Mixed(t, plan, keepLog)
	}
	w := kernel.NewWorld(plan, keepLog)
	Bubble(t, plan.Seed, func() {
		start := time.Now()
		rng := kernel.NewRNG(plan.Seed, 0xd19c)
		typ := c19Types[int(plan.Sw("type"))%4]
		policy := c19Policies[int(plan.Sw("policy"))%4]
		col := colKind{Name: "c1", Envelope: []string{"acrablock", "acrastruct"}[plan.Sw("env")%2], DataType: typ, OnFail: policy}
		defText := ""
		switch typ {
		case "str":
			col.Default, defText = "default-text-value", "default-text-value"
		case "bytes":
			col.Default, defText = "ZGVmYXVsdC1ieXRlcw==", "default-bytes"
		case "int32":
			col.Default, defText = "1234567", "1234567"
		case "int64":
			col.Default, defText = "9876543210123", "9876543210123"
		}
		cols19 := []colKind{col}
		if plan.Sw("extra") == 1 {
			// a second typed column (bytes) selected after the first one
			cols19 = append(cols19, colKind{Name: "c2", Envelope: col.Envelope, DataType: "bytes"})
		}
		mysql := plan.Sw("mysql") == 1
		var pw *PgWorld
		var names []string
		var err error
		if mysql {
			pw, names, err = myColWorld(w, plan, rng, cols19)
		} else {
			pw, names, err = colWorld(w, plan, rng, cols19)
		}
		if err != nil {
			w.Violate("C19", "world-builds", "pg", err.Error())
			return
		}
		binaryRes := plan.Sw("binary") == 1
		var values []string
		var script []Stmt
		for i, op := range plan.Ops {
			v := c19Value(typ, int(op.Arg(0, 0)), i)
			if plan.Sw("params") != 1 {
				v = strings.ReplaceAll(v, "\x00", "0") // a literal cannot carry NUL
			}
			values = append(values, v)
			if mysql {
				script = append(script, myInsertStmt(names, i+1, "p", []string{v, "extra-bytes"}[:len(cols19)], cols19, plan.Sw("params") == 1, 0))
				continue
			}
			ins := insertStmt(names, i+1, []string{v, "extra-bytes"}[:len(cols19)], cols19, plan.Sw("params") == 1)
			if ins.Extended && !mysql {
				ins.Describe = true // the statement is described before it is bound: parameter types as declared
			}
			script = append(script, ins)
		}
		read := func(i int) Stmt {
			st := Stmt{SQL: fmt.Sprintf("SELECT %s FROM t1 WHERE id = %d", strings.Join(names, ", "), i+1)}
			if mysql {
				if binaryRes { // prepared statement: rows in the binary protocol
					st = Stmt{SQL: fmt.Sprintf("SELECT %s FROM t1 WHERE id = ?", strings.Join(names, ", ")), Extended: true, Args: []interface{}{int64(i + 1)}}
				}
				return st
			}
			if binaryRes {
				st.Extended, st.ResultFormats, st.Describe = true, []int16{0, 0, 1, 1}[:len(names)], true
				if i%2 == 1 {
					// one format code for all columns, as clients that ask for binary results send it
					st.ResultFormats = []int16{1}
				}
			} else if plan.Sw("describe") == 1 {
				st.Extended, st.Describe = true, true
			}
			return st
		}
		for i := range values {
			script = append(script, read(i))
		}
		site := fmt.Sprintf("pg/%s/%s/%s", col.Envelope, typ, map[bool]string{true: "binary", false: "text"}[binaryRes])
		if mysql {
			site = "mysql" + site[2:]
		}
		run := pw.RunSession(owner, script)
		if w.Res.Cut {
			return
		}
		for _, p := range pw.Panics {
			w.Violate("C14", "no-panic", "pg/proxy", p)
		}
		if run.Stuck || run.ClientErr != "" {
			w.Violate("C19", "session-completes", site, fmt.Sprintf("%q %v", run.ClientErr, run.ProxyErrs))
			return
		}
		format := int16(0)
		if binaryRes {
			format = 1
		}
		c19Decode := c19Decode
		if mysql {
			// the MySQL driver hands every cell over as text or raw bytes, whatever the row protocol
			format = 1
			c19Decode = func(typ string, format int16, cell []byte) (string, error) { return string(cell), nil }
		}
		for i := range values {
			// a described INSERT: the parameter of the typed column (the third) is announced with the declared type
			if ins := run.Results[i]; i < len(script) && script[i].Describe && ins.Err == "" && len(ins.ParamOIDs) >= 3 && ins.ParamOIDs[2] != c19OID[typ] {
				w.Violate("C19", "parameter-described-as-declared-type", site, fmt.Sprintf("declared %s (oid %d) but parameter $3 of %q is described with oid %d (all %v)", typ, c19OID[typ], script[i].SQL, ins.ParamOIDs[2], ins.ParamOIDs))
				break
			}
		}
		for i, v := range values {
			res := run.Results[len(values)+i]
			if res.Err != "" || len(res.Rows) != 1 {
				w.Violate("C19", "owner-gets-declared-type", site, fmt.Sprintf("value %q: err=%q rows=%d", v, res.Err, len(res.Rows)))
				continue
			}
			if mysql {
				if want := map[string]string{"int32": "INT", "int64": "BIGINT"}[typ]; want != "" && len(res.MyTypes) >= 3 && res.MyTypes[2] != want {
					w.Violate("C19", "column-described-as-declared-type", site, fmt.Sprintf("declared %s but described as %s", typ, res.MyTypes[2]))
				}
			} else if len(res.Fields) >= 3 && res.Fields[2].DataTypeOID != c19OID[typ] {
				w.Violate("C19", "column-described-as-declared-type", site, fmt.Sprintf("declared %s (oid %d) but described with oid %d", typ, c19OID[typ], res.Fields[2].DataTypeOID))
			}
			got, derr := c19Decode(typ, format, res.Rows[0][2])
			if derr != nil || got != v {
				w.Violate("C19", "owner-gets-declared-type", site, fmt.Sprintf("wrote %q, owner decodes %q from %.40q (%v)", v, got, res.Rows[0][2], derr))
			}
		}
		// a reader that cannot decrypt gets exactly what the policy says
		t1 := pw.DB.Tables["t1"]
		for _, reader := range []string{stranger, nokeys} {
			var rs []Stmt
			for i := range values {
				rs = append(rs, read(i))
			}
			allAt := -1
			if policy != "error" && len(values) >= 2 {
				// all rows in one result set: what is done to the cells of one row must not change how the next is read
				all := read(0)
				all.SQL = strings.Replace(strings.Replace(all.SQL, "WHERE id = 1", "WHERE id <> 0", 1), "WHERE id = ?", "WHERE id <> ?", 1)
				if len(all.Args) == 1 {
					all.Args = []interface{}{int64(0)}
				}
				allAt = len(rs)
				rs = append(rs, all)
			}
			rs = append(rs, Stmt{SQL: "SELECT id, plain FROM t1 WHERE id = 1", Tag: "after"})
			rrun := pw.RunSession(reader, rs)
			psite := site + "/" + map[string]string{"": "default-policy"}[policy] + policy
			if allAt >= 0 && allAt < len(rrun.Results) {
				res := rrun.Results[allAt]
				if res.Err != "" || !res.Ready || len(res.Rows) != len(t1.Rows) {
					w.Violate("C19", "all-rows-in-one-result", psite, fmt.Sprintf("%q: err=%q ready=%v rows=%d of %d (client error %q)", rs[allAt].SQL, res.Err, res.Ready, len(res.Rows), len(t1.Rows), rrun.ClientErr))
				} else {
					for k, row := range res.Rows {
						stored := t1.Rows[k][2]
						if len(row) < 3 || stored == nil {
							continue
						}
						cell := row[2]
						ok := true
						switch {
						case len(stored) == 0:
							ok = len(cell) == 0 || (!mysql && format == 0 && string(cell) == "\\x")
						case policy == "default_value":
							got, derr := c19Decode(typ, format, cell)
							ok = derr == nil && got == defText
						default:
							ok = bytes.Equal(cell, stored)
							if !ok && format == 0 {
								if dec, derr := decodeBytea(cell); derr == nil && bytes.Equal(dec, stored) {
									ok = true
								}
							}
						}
						if !ok {
							w.Violate("C19", "all-rows-in-one-result", psite, fmt.Sprintf("row %d of %d: reader got %.40q, stored cell is %.24x.. (policy %q)", k+1, len(res.Rows), cell, stored, policy))
							break
						}
					}
				}
			}
			for i, v := range values {
				res := rrun.Results[i]
				if res.Ready == false {
					w.Violate("C19", "session-usable-after-failure", psite, fmt.Sprintf("no ready after reading row %d: client error %q", i+1, rrun.ClientErr))
					break
				}
				var cell []byte
				if len(res.Rows) == 1 {
					cell = res.Rows[0][2]
				}
				if i >= len(t1.Rows) || t1.Rows[i][2] == nil {
					continue // the owner's write of this row failed (reported above)
				}
				stored := t1.Rows[i][2]
				if len(stored) == 0 && policy == "error" && i > 0 {
					continue // statements after an error-policy failure are a known finding of their own
				}
				if len(stored) == 0 {
					// the empty value is stored as it is (nothing to protect): every reader gets it back
					// (in PostgreSQL's text format an empty bytea is spelled \x)
					emptyBytea := !mysql && format == 0 && string(cell) == "\\x" && fieldOID(res, 2) == 17
					if res.Err != "" || (len(cell) != 0 && !emptyBytea) {
						w.Violate("C19", "empty-value-stays-empty", psite, fmt.Sprintf("reader got %.40q (err %q) for an empty stored cell", cell, res.Err))
					}
					continue
				}
				switch policy {
				case "error":
					if res.Err == "" && i == 0 {
						w.Violate("C19", "policy-error-gives-error", psite, fmt.Sprintf("value %q: reader got a row %.40q instead of an error", v, cell))
					} else if res.Err == "" {
						w.Violate("C19", "session-usable-after-failure", site[:strings.Index(site, "/")]+"/error-policy:later-statement-not-processed", fmt.Sprintf("after an error-policy failure the next read of the typed column returned %.40q (described as oid %d) instead of an error", cell, fieldOID(res, 2)))
					}
				case "default_value":
					got, derr := c19Decode(typ, format, cell)
					if res.Err != "" || derr != nil || got != defText {
						w.Violate("C19", "policy-default-gives-default", psite, fmt.Sprintf("reader got %.40q (decoded %q, err %q/%v), want default %q", cell, got, res.Err, derr, defText))
					}
				default: // ciphertext (also the default policy)
					// the stored bytes, as they are or in the bytea text spelling
					same := bytes.Equal(cell, stored)
					if !same && format == 0 {
						if dec, derr := decodeBytea(cell); derr == nil && bytes.Equal(dec, stored) {
							same = true
						}
					}
					if res.Err != "" || !same {
						w.Violate("C19", "policy-ciphertext-gives-stored-bytes", psite, fmt.Sprintf("reader got %.40q (err %q), stored cell is %.24x..", cell, res.Err, stored))
					}
				}
				if len(v) >= 8 && typ != "int32" && typ != "int64" && bytes.Contains(cell, []byte(v)) {
					w.Violate("C19", "never-partly-revealed", psite, fmt.Sprintf("reader without keys received the plaintext %q", v))
				}
			}
			if last := rrun.Results[len(rs)-1]; rrun.ClientErr == "" && (last.Err != "" || len(last.Rows) != 1) {
				w.Violate("C19", "session-usable-after-failure", psite, fmt.Sprintf("statement after the typed reads: err=%q rows=%d", last.Err, len(last.Rows)))
			}
		}
		w.State(site + "/" + policy)
		w.Res.SimNanos = int64(time.Since(start))
	})
	return w.Finish()
}

// ---------------------------------------------------------------------
// C09 — equality search over protected columns finds exactly the matching rows.

type C09 struct{}

func (C09) ID() string { return "C09" }

func (C09) Explore(x *kernel.Explorer, seed uint64) {
	r := kernel.NewRNG(seed, 0xc09)
	for i := 0; i < 4 && !x.Expired(); i++ {
		plan := &kernel.Plan{Prop: "C09", Seed: kernel.Mix(seed, uint64(i)), Swarm: map[string]int64{"idlenth": int64([]int{0, 0, 0, 2, 3}[r.Intn(5)]), "pgreexec": int64(r.Intn(2)), "fetch": int64([]int{0, 0, 1, 2}[r.Intn(4)]),
			"chunk": int64(r.Intn(4)), "env": int64(r.Intn(2)), "typed": int64(r.Intn(2)), "params": int64(r.Intn(2)), "mysql": int64(r.Intn(3) / 2), "depeof": int64(r.Intn(2)), "rawmy": int64(r.Intn(2)), "reexec": int64(r.Intn(2)), "wyield": int64(r.Intn(2)),
			"join": int64(r.Intn(4) / 3), "preprot": int64(r.Intn(2)), "rotfail": int64(r.Intn(3)/2) * int64(1+r.Intn(8))}}
		n := 2 + r.Intn(7)
		for j := 0; j < n; j++ {
			plan.Ops = append(plan.Ops, kernel.Op{ID: j + 1, Kind: "row", A: []int64{int64([]int{0, 1, 2, 3, 4, 5, 0, 1, 2, 3, 4, 5, 6, 8, 10}[r.Intn(15)])}})
		}
		for j := 0; j < 2+r.Intn(5); j++ {
			plan.Ops = append(plan.Ops, kernel.Op{ID: 100 + j, Kind: "search", A: []int64{int64(r.Intn(len(c09Values))), int64(r.Intn(8)), int64(r.Intn(2))}})
		}
		x.Exec(plan)
	}
}

func c09Index(v string) int {
	for i, x := range c09Values {
		if x == v {
			return i
		}
	}
	return 0
}

var c09Values = []string{"alpha-search-value", "alpha-search", "beta-search-value", "alpha-search-value2", "g", "delta value with spaces", "absent-value", "alpha", "",
	// searched only: values that differ from a stored one in trailing or leading blanks or in case
	"alpha-search-value ", " alpha-search-value", "Alpha-search-value", "g ", "delta value with spaces  ", "alpha-search-value\t"}

func (C09) Run(t *testing.T, plan *kernel.Plan, keepLog bool) *kernel.Result {
	if plan.Sw("join") == 1 {
		return c09Join(t, plan, keepLog)
	}
	w := kernel.NewWorld(plan, keepLog)
	Bubble(t, plan.Seed, func() {
		start := time.Now()
		rng := kernel.NewRNG(plan.Seed, 0xd09c)
		col := colKind{Name: "c1", Envelope: []string{"acrablock", "acrastruct"}[plan.Sw("env")%2], Search: true}
		if plan.Sw("typed") == 1 {
			col.DataType = "str"
		}
		mysql := plan.Sw("mysql") == 1
		var pw *PgWorld
		var names []string
		var err error
		if mysql {
			pw, names, err = myColWorld(w, plan, rng, []colKind{col})
		} else {
			pw, names, err = colWorld(w, plan, rng, []colKind{col})
		}
		if err != nil {
			w.Violate("C09", "world-builds", "pg", err.Error())
			return
		}
		site := "pg/" + col.describe()
		if mysql {
			site = "mysql/" + col.describe()
		}
		var values []string
		var script []Stmt
		for _, op := range plan.Ops {
			if op.Kind != "row" {
				continue
			}
			v := c09Values[int(op.Arg(0, 0))%6]
			if int(op.Arg(0, 0))%12 >= 6 && v != "" {
				// a stored value that differs from another stored (and searched) one in a trailing blank only
				v += " "
			}
			values = append(values, v)
			if mysql {
				script = append(script, myInsertStmt(names, len(values), "p", []string{v}, []colKind{col}, plan.Sw("params") == 1, len(values)%2))
				continue
			}
			script = append(script, insertStmt(names, len(values), []string{v}, []colKind{col}, plan.Sw("params") == 1))
		}
		if plan.Sw("preprot") == 1 && plan.Sw("typed") == 0 && !w.Res.Cut {
			// a value the application has protected itself (library call) is written into the searchable column:
			// it is stored as it is, with the index of its plaintext, and is found and read like any other row
			plainV := c09Values[0]
			var envelope []byte
			var perr error
			if col.Envelope == "acrastruct" {
				var pub *keys.PublicKey
				if pub, perr = pw.KS.KS.GetClientIDEncryptionPublicKey([]byte(owner)); perr == nil {
					var as []byte
					if as, perr = acrastruct.CreateAcrastruct([]byte(plainV), pub, nil); perr == nil {
						envelope, perr = crypto.SerializeEncryptedData(as, crypto.AcraStructEnvelopeID)
					}
				}
			} else {
				var key []byte
				if key, perr = pw.KS.KS.GetClientIDSymmetricKey([]byte(owner)); perr == nil {
					var blk []byte
					if blk, perr = acrablock.CreateAcraBlock([]byte(plainV), key, nil); perr == nil {
						envelope, perr = crypto.SerializeEncryptedData(blk, crypto.AcraBlockEnvelopeID)
					}
				}
			}
			if perr != nil {
				w.Violate("C09", "world-builds", site, perr.Error())
				return
			}
			values = append(values, plainV)
			lit := "'\\x" + hex.EncodeToString(envelope) + "'"
			if mysql {
				lit = "X'" + hex.EncodeToString(envelope) + "'"
			}
			script = append(script, Stmt{SQL: fmt.Sprintf("INSERT INTO t1 (id, plain, c1) VALUES (%d, 'p', %s)", len(values), lit)})
			w.Probe("application-protected-value-in-searchable-column")
		}
		type search struct {
			val   string
			shape int
		}
		var searches []search
		for _, op := range plan.Ops {
			if op.Kind != "search" {
				continue
			}
			s := search{c09Values[int(op.Arg(0, 0))%len(c09Values)], int(op.Arg(1, 0))}
			val2 := c09Values[(int(op.Arg(0, 0))+2)%6]
			if s.val == "" {
				continue
			}
			searches = append(searches, s)
			st := Stmt{}
			usePar := op.Arg(2, 0) == 1
			lit := sqlQuote(s.val)
			if usePar {
				st.Extended, st.Params = true, [][]byte{[]byte(s.val)}
				lit = "$1"
				if mysql {
					st.Args, lit = []interface{}{s.val}, "?"
				}
			}
			switch s.shape {
			case 1:
				st.SQL = "SELECT id FROM t1 WHERE c1 <> " + lit
			case 2:
				st.SQL = "SELECT id FROM t1 WHERE c1 = " + lit + " AND plain = 'p'"
			case 3:
				st.SQL = "SELECT id FROM t1 WHERE c1 = " + lit + " OR id = 1"
			case 4:
				st.SQL = "SELECT id FROM t1 WHERE " + lit + " = c1" // the column on the right of the operator
			case 5:
				// two searched values in one statement (two placeholders in one Bind)
				lit2 := sqlQuote(val2)
				if usePar {
					st.Params = append(st.Params, []byte(val2))
					lit2 = "$2"
					if mysql {
						st.Args, lit2 = append(st.Args, val2), "?"
					}
				}
				st.SQL = "SELECT id FROM t1 WHERE c1 = " + lit + " OR c1 = " + lit2
			case 6, 7:
				// a condition on an ordinary column, with a value of its own, before the searched one
				// (with parameters: the searched value is not the first placeholder)
				first, cond := "'p'", "plain = "
				if s.shape == 7 {
					first, cond = "0", "id <> "
				}
				if usePar {
					if mysql {
						st.Args, lit = []interface{}{"p", s.val}, "?"
						if s.shape == 7 {
							st.Args[0] = int64(0)
						}
						first = "?"
					} else {
						st.Params, lit = [][]byte{[]byte("p"), []byte(s.val)}, "$2"
						if s.shape == 7 {
							st.Params[0] = []byte("0")
						}
						first = "$1"
					}
				}
				st.SQL = "SELECT id FROM t1 WHERE " + cond + first + " AND c1 = " + lit
			default:
				st.SQL = "SELECT id FROM t1 WHERE c1 = " + lit
			}
			script = append(script, st)
		}
		var run *SessionRun
		if nth := int(plan.Sw("rotfail")); nth > 0 && len(values) >= 2 && plan.Sw("ksv2") == 0 {
			// A rotation of the client's HMAC key fails on an I/O error between two sessions of the running
			// proxy. If the key store still holds the old key afterwards (the rotation did not take effect),
			// the running proxy must go on computing the same indexes as before.
			half := len(values) / 2
			run = pw.RunSession(owner, script[:half])
			if w.Res.Cut {
				return
			}
			before, kerr := pw.KS.ReadCurrent(ksw.KHmac, []byte(owner))
			if kerr != nil {
				w.Violate("C09", "world-builds", site, kerr.Error())
				return
			}
			pw.ArmKeyFault(nth)
			rerr := pw.KS.Generate(ksw.KHmac, []byte(owner))
			pw.DisarmKeyFault()
			obsWorld := kernel.NewWorld(&kernel.Plan{}, false)
			obsWorld.MaxSteps = 1 << 60
			obs, oerr := ksw.Open(obsWorld, 0, pw.Disk, -1)
			var stored ksw.KeyVal
			if oerr == nil {
				stored, oerr = obs.ReadCurrent(ksw.KHmac, []byte(owner))
			}
			if rerr == nil || oerr != nil || !bytes.Equal(stored.Secret, before.Secret) {
				// the rotation took effect (or the store is not readable): later indexes legitimately differ
				w.Probe("hmac-rotation-took-effect")
				w.State(site + " rotation-took-effect")
				w.Res.SimNanos = int64(time.Since(start))
				return
			}
			w.Probe("hmac-rotation-failed-cleanly")
			w.Res.Fired["keystore-io-error"]++
			run2 := pw.RunSession(owner, script[half:])
			run.Results = append(run.Results, run2.Results...)
			run.Stuck, run.ClientErr, run.ProxyErrs = run.Stuck || run2.Stuck, run.ClientErr+run2.ClientErr, append(run.ProxyErrs, run2.ProxyErrs...)
		} else {
			run = pw.RunSession(owner, script)
		}
		if w.Res.Cut {
			return
		}
		for _, p := range pw.Panics {
			w.Violate("C14", "no-panic", "pg/proxy", p)
		}
		if run.Stuck || run.ClientErr != "" {
			w.Violate("C09", "session-completes", site, fmt.Sprintf("%q %v", run.ClientErr, run.ProxyErrs))
			return
		}
		// equal plaintexts carry equal blind indexes, different ones different
		t1 := pw.DB.Tables["t1"]
		idx := map[string]string{}
		for i, v := range values {
			if i >= len(t1.Rows) || len(t1.Rows[i][2]) < 33 {
				w.Violate("C09", "stored-value-has-index", site, fmt.Sprintf("row %d (%q) is stored in %d bytes", i+1, v, len(t1.Rows[i][2])))
				continue
			}
			h := hex.EncodeToString(t1.Rows[i][2][:33])
			if prev, ok := idx[v]; ok && prev != h {
				w.Violate("C09", "equal-plaintexts-equal-index", site, fmt.Sprintf("two rows with %q carry different indexes", v))
			}
			idx[v] = h
		}
		seen := map[string]string{}
		for v, h := range idx {
			if o, ok := seen[h]; ok {
				w.Violate("C09", "different-plaintexts-different-index", site, fmt.Sprintf("%q and %q share an index", v, o))
			}
			seen[h] = v
		}
		// the rewritten condition selects exactly the model's rows
		for k, s := range searches {
			res := run.Results[len(values)+k]
			want := map[int]bool{}
			for i, v := range values {
				eq := v == s.val
				switch s.shape {
				case 1:
					if !eq {
						want[i+1] = true
					}
				case 3:
					if eq || i == 0 {
						want[i+1] = true
					}
				case 5:
					if eq || v == c09Values[(c09Index(s.val)+2)%6] {
						want[i+1] = true
					}
				default:
					if eq {
						want[i+1] = true
					}
				}
			}
			got := map[int]bool{}
			for _, r := range res.Rows {
				n, _ := strconv.Atoi(string(r[0]))
				got[n] = true
			}
			if res.Err != "" || fmt.Sprint(got) != fmt.Sprint(want) {
				w.Violate("C09", "search-finds-exactly-matching-rows", fmt.Sprintf("%s/shape%d", site, s.shape), fmt.Sprintf("%q: got rows %v err=%q, model says %v (values %q)", script[len(values)+k].SQL, got, res.Err, want, values))
			}
		}
		// a stored value whose index was swapped with another row's is not handed out as plaintext
		if len(values) >= 2 && values[0] != values[1] && len(t1.Rows) >= 2 {
			a, b := t1.Rows[0][2], t1.Rows[1][2]
			if len(a) > 33 && len(b) > 33 {
				swapped := append(append([]byte{}, b[:33]...), a[33:]...)
				t1.Rows[0][2] = swapped
				r2 := pw.RunSession(owner, []Stmt{{SQL: "SELECT id, plain, c1 FROM t1 WHERE id = 1"}})
				if len(r2.Results[0].Rows) == 1 {
					cell := decodeClientCell(17, 0, r2.Results[0].Rows[0][2])
					if mysql {
						cell = r2.Results[0].Rows[0][2]
					}
					if string(cell) == values[0] {
						w.Violate("C09", "mismatched-index-not-handed-out", site, fmt.Sprintf("a cell whose index belongs to %q was revealed as %q", values[1], values[0]))
					}
				}
				w.Probe("index-swap")
			}
		}
		w.State(fmt.Sprintf("%s rows=%d searches=%d", site, len(values), len(searches)))
		w.Res.SimNanos = int64(time.Since(start))
		w.Res.Trivial = len(searches) == 0
	})
	return w.Finish()
}
