package pxw

import (
	"bytes"
	"fmt"
	"github.com/cossacklabs/acra/acrablock"
	"github.com/cossacklabs/acra/crypto"
	"strings"
	"testing"
	"time"

	"verif/sim/kernel"
)

// C05 — a statement rejected by the SQL firewall never reaches the database.
//
// The proxy runs with a real AcraCensor built from a generated YAML chain.
// An independent evaluator of the documented chain semantics says, for every
// statement of a session, whether it must be admitted. Sessions mix admitted
// and rejected statements in formatting variants, simple and extended
// protocol; deliveries are scheduled from the tape, so responses of earlier
// statements can still be in flight when a rejected one arrives.
type C05 struct{}

func (C05) ID() string { return "C05" }

// statement templates; %d is the statement's unique marker number
type c05Template struct {
	name   string
	kind   string // select | insert | update | delete | garbage
	tables []string
	text   string
	// patterns obtained by generalising the statement (match every statement of the template)
	patterns []string
}

var c05Templates = []c05Template{
	{"sel_t2", "select", []string{"t2"}, "SELECT id, note FROM t2 WHERE id = %d",
		[]string{"SELECT id, note FROM t2 WHERE id = %%%%VALUE%%%%", "SELECT id, note FROM t2 %%%%WHERE%%%%", "SELECT %%%%COLUMN%%%%, note FROM t2 WHERE id = %%%%VALUE%%%%"}},
	{"sel_t1", "select", []string{"t1"}, "SELECT id, c1 FROM t1 WHERE id = %d",
		[]string{"SELECT id, c1 FROM t1 WHERE id = %%%%VALUE%%%%", "SELECT id, c1 FROM t1 %%%%WHERE%%%%"}},
	{"ins_t2", "insert", []string{"t2"}, "INSERT INTO t2 (id, note) VALUES (%d, 'fixed')",
		[]string{"INSERT INTO t2 (id, note) VALUES (%%%%VALUE%%%%, 'fixed')", "INSERT INTO t2 (id, note) VALUES (%%%%VALUE%%%%, %%%%VALUE%%%%)"}},
	{"upd_t2", "update", []string{"t2"}, "UPDATE t2 SET note = 'fixed' WHERE id = %d",
		[]string{"UPDATE t2 SET note = 'fixed' WHERE id = %%%%VALUE%%%%"}}, // (%%WHERE%% in UPDATE/DELETE patterns is observed not to match; not asserted)
	{"del_t2", "delete", []string{"t2"}, "DELETE FROM t2 WHERE id = %d",
		[]string{"DELETE FROM t2 WHERE id = %%%%VALUE%%%%"}},
	{"upd_t1", "update", []string{"t1"}, "UPDATE t1 SET plain = 'fixed' WHERE id = %d",
		[]string{"UPDATE t1 SET plain = 'fixed' WHERE id = %%%%VALUE%%%%"}},
	{"del_t1", "delete", []string{"t1"}, "DELETE FROM t1 WHERE id = %d",
		[]string{"DELETE FROM t1 WHERE id = %%%%VALUE%%%%"}},
	{"ins_t1", "insert", []string{"t1"}, "INSERT INTO t1 (id, plain) VALUES (%d, 'fixed')",
		[]string{"INSERT INTO t1 (id, plain) VALUES (%%%%VALUE%%%%, 'fixed')"}},
	// statements over several tables: a table rule denies when any of them is listed and allows when all are
	{"join_t2_t1", "select", []string{"t2", "t1"}, "SELECT t2.id, t1.plain FROM t2 JOIN t1 ON t2.id = t1.id WHERE t2.id = %d", nil},
	{"comma_t2_t1", "select", []string{"t2", "t1"}, "SELECT t2.id, t1.plain FROM t2, t1 WHERE t2.id = %d", nil},
	{"join_nested", "select", []string{"t2", "t1", "t3"}, "SELECT t2.id FROM t2 JOIN (t1 JOIN t3 ON t1.id = t3.id) ON t2.id = t1.id WHERE t2.id = %d", nil},
	{"join_group", "select", []string{"t3", "t2", "t1"}, "SELECT t3.id FROM t3 JOIN (t2, t1) ON t3.id = t2.id WHERE t3.id = %d", nil},
	{"join_chain", "select", []string{"t1", "t2", "t3"}, "SELECT t1.id FROM t1 JOIN t2 ON t1.id = t2.id JOIN t3 ON t2.id = t3.id WHERE t1.id = %d", nil},
	{"join_chain_left", "select", []string{"t2", "t1", "t3"}, "SELECT t2.id FROM t2 LEFT JOIN t1 ON t1.id = t2.id JOIN t3 ON t2.id = t3.id WHERE t2.id = %d", nil},
	// value lists: a pattern with a fixed number of elements does not match a longer list
	{"in_list3", "select", []string{"t2"}, "SELECT note, id FROM t2 WHERE id IN (%d, 7, abs(1))",
		[]string{"SELECT note, id FROM t2 WHERE id IN (%%%%VALUE%%%%, %%%%VALUE%%%%, abs(1))"}},
	{"in_list4", "select", []string{"t2"}, "SELECT note, id FROM t2 WHERE id IN (%d, 7, abs(1), 8)", nil},
	{"in_list5", "select", []string{"t2"}, "SELECT note, id FROM t2 WHERE id IN (%d, 7, abs(1), (SELECT id FROM t2 WHERE id = 8))", nil},
	// several statements in one simple Query message: not one parsable statement
	{"multi", "garbage", nil, "SELECT id, note FROM t2 WHERE id = %d; SELECT id, c1 FROM t1 WHERE id = 1", nil},
	{"garbage", "garbage", nil, "SELEC id FRM t2 WHERE id = %d", nil},
}

var c05KindPattern = map[string]string{"select": "%%SELECT%%", "insert": "%%INSERT%%", "update": "%%UPDATE%%", "delete": "%%DELETE%%"}

// rule of one handler in the model
type c05Handler struct {
	Kind     string   // allow deny allowall denyall query_ignore
	Queries  []string // exact statement texts (canonical spelling)
	Tables   []string
	Patterns []c05Pat
}

type c05Pat struct {
	Text     string
	Template string // matches every statement of this template ...
	Kind     string // ... or every statement of this kind (statement-type pattern)
}

type c05Stmt struct {
	tmpl   *c05Template
	marker int
	canon  string
}

func (h c05Handler) matches(s c05Stmt, allTables bool) bool {
	for _, q := range h.Queries {
		if q == s.canon {
			return true
		}
	}
	if len(h.Tables) > 0 && (s.tmpl.kind == "select" || s.tmpl.kind == "insert") {
		n := 0
		for _, t := range s.tmpl.tables {
			for _, ht := range h.Tables {
				if t == ht {
					n++
				}
			}
		}
		if allTables && n == len(s.tmpl.tables) && n > 0 {
			return true
		}
		if !allTables && n > 0 {
			return true
		}
	}
	for _, p := range h.Patterns {
		if p.Template == s.tmpl.name || (p.Kind != "" && p.Kind == s.tmpl.kind) {
			return true
		}
	}
	return false
}

// c05Verdict is the reference evaluation of the documented chain semantics.
func c05Verdict(chain []c05Handler, ignoreParseErr bool, s c05Stmt) (admit bool, why string) {
	if len(chain) == 0 {
		return true, "no handlers"
	}
	parsed := s.tmpl.kind != "garbage"
	if !parsed && !ignoreParseErr {
		return false, "unparsable"
	}
	for i, h := range chain {
		switch h.Kind {
		case "allowall":
			return true, fmt.Sprintf("handler %d allowall", i)
		case "denyall":
			return false, fmt.Sprintf("handler %d denyall", i)
		case "query_ignore":
			// matches the raw text exactly; variants are not the same raw text
			continue
		case "deny":
			if parsed && h.matches(s, false) {
				return false, fmt.Sprintf("handler %d deny", i)
			}
		case "allow":
			if parsed && h.matches(s, true) {
				return true, fmt.Sprintf("handler %d allow", i)
			}
		}
	}
	return true, "end of chain"
}

func c05YAML(chain []c05Handler, ignoreParseErr bool) string {
	var sb strings.Builder
	fmt.Fprintf(&sb, "version: 0.85.0\nignore_parse_error: %v\nhandlers:\n", ignoreParseErr)
	for _, h := range chain {
		fmt.Fprintf(&sb, "  - handler: %s\n", h.Kind)
		if len(h.Queries) > 0 {
			sb.WriteString("    queries:\n")
			for _, q := range h.Queries {
				fmt.Fprintf(&sb, "      - %q\n", q)
			}
		}
		if len(h.Tables) > 0 {
			sb.WriteString("    tables:\n")
			for _, t := range h.Tables {
				fmt.Fprintf(&sb, "      - %s\n", t)
			}
		}
		if len(h.Patterns) > 0 {
			sb.WriteString("    patterns:\n")
			for _, p := range h.Patterns {
				fmt.Fprintf(&sb, "      - %q\n", p.Text)
			}
		}
	}
	return sb.String()
}

func (C05) Explore(x *kernel.Explorer, seed uint64) {
	r := kernel.NewRNG(seed, 0xc05)
	for i := 0; i < 4 && !x.Expired(); i++ {
		plan := &kernel.Plan{Prop: "C05", Seed: kernel.Mix(seed, uint64(i)), Swarm: map[string]int64{
			"chunk": int64(r.Intn(4)), "ignoreparse": int64(r.Intn(2)), "chainseed": int64(r.Uint32()), "extended": int64(r.Intn(3) / 2), "mysql": int64(r.Intn(3) / 2), "depeof": int64(r.Intn(2)), "rawmy": int64(r.Intn(2)), "reexec": int64(r.Intn(2)), "wyield": int64(r.Intn(2)), "idle": int64(r.Intn(4) / 3)}}
		n := 3 + r.Intn(8)
		for j := 0; j < n; j++ {
			plan.Ops = append(plan.Ops, kernel.Op{ID: j + 1, Kind: "stmt",
				A: []int64{int64(r.Intn(len(c05Templates))), int64(r.Intn(6)), int64(r.Intn(2)), int64(r.Intn(5))}})
		}
		if r.Chance(1, 5) {
			// the client goes away in the middle of the session: whatever it had sent is still delivered,
			// answers to it cannot be written any more
			plan.Swarm["chunk"] = 0
			plan.Faults = append(plan.Faults, kernel.Fault{Site: "client->proxy-c", Nth: 2 + r.Intn(n+2), Kind: "cut"})
		}
		x.Exec(plan)
	}
}

// c05Chain draws a handler chain; statements of the session are known so that
// exact-query rules can name them.
func c05Chain(r *kernel.RNG, stmts []c05Stmt) []c05Handler {
	n := r.Intn(4)
	var chain []c05Handler
	for i := 0; i < n; i++ {
		h := c05Handler{Kind: r.Pick("allow", "deny", "deny", "allow", "allowall", "denyall")}
		if i < n-1 && (h.Kind == "allowall" || h.Kind == "denyall") {
			h.Kind = r.Pick("allow", "deny")
		}
		if h.Kind == "allow" || h.Kind == "deny" {
			switch r.Intn(4) {
			case 0:
				if len(stmts) > 0 {
					s := stmts[r.Intn(len(stmts))]
					if s.tmpl.kind != "garbage" {
						h.Queries = []string{s.canon}
					}
				}
			case 1:
				h.Tables = []string{r.Pick("t1", "t2", "t3")}
				if r.Chance(1, 3) {
					h.Tables = [][]string{{"t1", "t2"}, {"t1", "t2"}, {"t2", "t3"}, {"t1", "t3"}, {"t1", "t2", "t3"}}[r.Intn(5)]
				}
			case 2:
				t := c05Templates[r.Intn(len(c05Templates))]
				for t.kind == "garbage" || len(t.patterns) == 0 {
					t = c05Templates[r.Intn(len(c05Templates))]
				}
				h.Patterns = []c05Pat{{Text: strings.ReplaceAll(t.patterns[r.Intn(len(t.patterns))], "%%%%", "%%"), Template: t.name}}
			default:
				k := r.Pick("select", "insert", "update", "delete")
				h.Patterns = []c05Pat{{Text: c05KindPattern[k], Kind: k}}
			}
		}
		chain = append(chain, h)
	}
	return chain
}

// variant applies a formatting variant that must not change the verdict.
func c05Variant(text string, v int) string {
	switch v {
	case 1:
		return strings.NewReplacer("SELECT", "select", "FROM", "from", "WHERE", "where", "INSERT INTO", "insert into",
			"VALUES", "values", "UPDATE", "update", "SET", "set", "DELETE", "delete").Replace(text)
	case 2:
		return strings.ReplaceAll(text, " ", "  ")
	case 3:
		if strings.Contains(text, ";") {
			return text
		}
		return text + ";"
	case 4:
		return "/* lead */ " + text
	case 5:
		return "  " + text + "  "
	}
	return text
}

func (C05) Run(t *testing.T, plan *kernel.Plan, keepLog bool) *kernel.Result {
	w := kernel.NewWorld(plan, keepLog)
	Bubble(t, plan.Seed, func() {
		start := time.Now()
		rng := kernel.NewRNG(plan.Seed, 0xd05c)
		// statements of the session
		var stmts []c05Stmt
		for i, op := range plan.Ops {
			tm := &c05Templates[int(op.Arg(0, 0))%len(c05Templates)]
			m := 500000 + i*17 + int(plan.Seed%13)
			stmts = append(stmts, c05Stmt{tmpl: tm, marker: m, canon: fmt.Sprintf(tm.text, m)})
		}
		chain := c05Chain(kernel.NewRNG(uint64(plan.Sw("chainseed")), 5), stmts)
		ignoreParse := plan.Sw("ignoreparse") == 1
		cols := []colKind{{Name: "c1", Envelope: "acrablock", DataType: "str", OnFail: "default_value", Default: "defaultstr"}}
		mysql := plan.Sw("mysql") == 1
		pw, err := NewPgWorld(w, rng, PgWorldConfig{SchemaYAML: schemaYAML(cols), CensorYAML: c05YAML(chain, ignoreParse),
			Clients: []string{owner}, ChunkMode: int(plan.Sw("chunk")), MySQL: mysql, MyDeprecateEOF: plan.Sw("depeof") == 1})
		if err != nil {
			w.Violate("C05", "world-builds", "pg", fmt.Sprintf("%v\n%s", err, c05YAML(chain, ignoreParse)))
			return
		}
		defer pw.Censor.ReleaseAll()
		pw.DB.AddTable("t1", Col{"id", TInt4}, Col{"plain", TText}, Col{"c1", TBytea})
		t2 := pw.DB.AddTable("t2", Col{"id", TInt4}, Col{"note", TText})
		pw.DB.AddTable("t3", Col{"id", TInt4}, Col{"note", TText})
		// rows the selects can find; they were written earlier, not in this session
		for _, s := range stmts {
			t2.Rows = append(t2.Rows, [][]byte{[]byte(fmt.Sprint(s.marker)), []byte(fmt.Sprintf("note-%d", s.marker))})
		}
		var script []Stmt
		for i, op := range plan.Ops {
			// a session speaks one protocol: the extended protocol is a pipeline
			// (Parse/Bind/Execute/Sync) and is judged separately below
			st := Stmt{SQL: c05Variant(stmts[i].canon, int(op.Arg(1, 0))), Extended: plan.Sw("extended") == 1}
			if plan.Sw("idle") == 1 && op.Arg(3, 0) == 0 {
				// the session was silent for longer than the proxy's network timeout
				st.IdleBefore = 61*time.Second + time.Duration(op.Arg(2, 0))*time.Second
			}
			script = append(script, st)
		}
		// A statement name used again: an admitted statement is prepared under a name, a rejected one is sent
		// under the same name, then the name is executed without a new Parse. The database still holds the
		// admitted statement; its rows must be processed as that statement's.
		reuseAt := -1
		if plan.Sw("extended") == 1 && !mysql && len(plan.Faults) == 0 {
			var good, bad *c05Stmt
			for i := range stmts {
				admit, _ := c05Verdict(chain, ignoreParse, stmts[i])
				if admit && stmts[i].tmpl.name == "sel_t1" && good == nil {
					good = &stmts[i]
				}
				if !admit && stmts[i].tmpl.kind != "garbage" && bad == nil {
					bad = &stmts[i]
				}
			}
			if good != nil && bad != nil {
				if key, kerr := pw.KS.KS.GetClientIDSymmetricKey([]byte(owner)); kerr == nil {
					if blk, berr := acrablock.CreateAcraBlock([]byte(fmt.Sprintf("PLAIN-%d", good.marker)), key, nil); berr == nil {
						if cell, serr := crypto.SerializeEncryptedData(blk, crypto.AcraBlockEnvelopeID); serr == nil {
							pw.DB.Tables["t1"].Rows = append(pw.DB.Tables["t1"].Rows, [][]byte{[]byte(fmt.Sprint(good.marker)), []byte("p"), cell})
							reuseAt = len(script)
							script = append(script,
								Stmt{SQL: good.canon, Extended: true, Name: "reused"},
								Stmt{SQL: bad.canon, Extended: true, Name: "reused"},
								Stmt{SQL: good.canon, Extended: true, Name: "reused", NoParse: true})
						}
					}
				}
			}
		}
		// MariaDB's direct execution (statement id -1 = the last statement prepared on the connection): a
		// statement with one parameter is prepared, a statement the rules reject is sent for preparation,
		// then id -1 is executed with one value. The database still holds the admitted statement.
		directAt := -1
		if mysql && plan.Sw("rawmy") == 1 && len(plan.Faults) == 0 && reuseAt < 0 {
			templated := false
			for _, h := range chain {
				for _, p := range h.Patterns {
					templated = templated || p.Template != ""
				}
			}
			goodT := &c05Template{name: "direct_good", kind: "select", tables: []string{"t2"}}
			badT := &c05Template{name: "direct_bad", kind: "select", tables: []string{"t1", "t3"}}
			good := c05Stmt{tmpl: goodT, marker: 880000 + int(plan.Seed%1000), canon: "SELECT id, note FROM t2 WHERE id = ?"}
			bad := c05Stmt{tmpl: badT, marker: 990000 + int(plan.Seed%1000), canon: "SELECT t1.id FROM t1 JOIN t3 ON t1.id = t3.id WHERE t1.id = ? AND t3.id = ? AND t3.note = 'm990000'"}
			admitGood, _ := c05Verdict(chain, ignoreParse, good)
			admitBad, _ := c05Verdict(chain, ignoreParse, bad)
			if !templated && admitGood && !admitBad {
				t2.Rows = append(t2.Rows, [][]byte{[]byte(fmt.Sprint(good.marker)), []byte(fmt.Sprintf("note-%d", good.marker))})
				directAt = len(script)
				script = append(script,
					Stmt{SQL: good.canon, Extended: true, Args: []interface{}{int64(good.marker)}, PrepareOnly: true},
					Stmt{SQL: bad.canon, Extended: true, Args: []interface{}{int64(1), int64(2)}, PrepareOnly: true},
					Stmt{Direct: true, Extended: true, Args: []interface{}{int64(good.marker)}})
			}
		}
		run := pw.RunSession(owner, script)
		if w.Res.Cut {
			return
		}
		for _, p := range pw.Panics {
			w.Violate("C14", "no-panic", "pg/proxy", p)
		}
		site := "pg"
		if mysql {
			site = "mysql"
		}
		if len(plan.Faults) > 0 {
			// the client went away: no answers to judge, but what the rules reject must still not reach the database
			for i, st := range stmts {
				if admit, why := c05Verdict(chain, ignoreParse, st); !admit && bytes.Contains(run.ToDB.Log, []byte(fmt.Sprint(st.marker))) {
					w.Violate("C05", "blocked-statement-never-forwarded", site+"/client-gone", fmt.Sprintf("%q must be rejected (%s) but reached the database after the client had gone", script[i].SQL, why))
				}
			}
			w.Probe("client-gone-session")
			w.State(fmt.Sprintf("chain=%d ignore=%v client-gone", len(chain), ignoreParse))
			w.Res.SimNanos = int64(time.Since(start))
			return
		}
		isBlocked := func(res StmtResult) bool {
			if mysql {
				// the MySQL proxy answers a blocked statement with its "query interrupted" error
				return strings.Contains(res.Err, "Query execution was interrupted")
			}
			return strings.Contains(res.Err, "AcraCensor blocked this query")
		}
		if run.Stuck || run.ClientErr != "" {
			if plan.Sw("extended") == 1 {
				site += "/extended"
			}
			if plan.Sw("idle") == 1 {
				site += "/after-idle" // (which of the two proxy goroutines reports its error first is not fixed)
			} else if len(run.ProxyErrs) > 0 {
				site += ":" + slugText(run.ProxyErrs[0])
			}
			w.Violate("C05", "session-survives-rejections", site, fmt.Sprintf("stuck=%v client error %q proxy errors %v after %d deliveries", run.Stuck, run.ClientErr, run.ProxyErrs, run.Steps))
			return
		}
		toDB := run.ToDB.Log
		// PostgreSQL's extended protocol is a pipeline; MySQL prepares and executes in separate round trips
		extended := plan.Sw("extended") == 1 && !mysql
		base := len(w.Res.Violations)
		rejectedAt := -1
		for i, s := range stmts {
			if extended && rejectedAt >= 0 {
				// After a rejected Parse the rest of that pipeline (Bind, Execute,
				// Sync) still flows; whatever follows is summarised as one class.
				res := run.Results[i]
				admit, _ := c05Verdict(chain, ignoreParse, s)
				blocked := isBlocked(res)
				if admit == blocked || (admit && s.tmpl.name == "sel_t2" && (res.Err != "" || len(res.Rows) != 1)) {
					w.Res.Violations = w.Res.Violations[:base]
					w.Violate("C05", "session-serves-statements-after-rejection", site+"/extended", fmt.Sprintf("after the rejected extended-protocol statement %q the session answers %q with err=%q rows=%d messages=%v", script[rejectedAt].SQL, script[i].SQL, res.Err, len(res.Rows), res.Messages))
					break
				}
				continue
			}
			res := run.Results[i]
			admit, why := c05Verdict(chain, ignoreParse, s)
			blocked := isBlocked(res)
			mk := []byte(fmt.Sprint(s.marker))
			proto := "simple"
			if script[i].Extended {
				proto = "extended"
			}
			ssite := fmt.Sprintf("%s/%s/%s", site, s.tmpl.kind, proto)
			w.Probe("verdict-" + map[bool]string{true: "admit", false: "reject"}[admit])
			switch {
			case !admit && !blocked:
				w.Violate("C05", "rejected-by-rules-is-blocked", ssite+"/"+ruleKind(why, chain), fmt.Sprintf("%q must be rejected (%s) but the client got err=%q rows=%d\n%s", script[i].SQL, why, res.Err, len(res.Rows), c05YAML(chain, ignoreParse)))
			case admit && blocked:
				w.Violate("C05", "admitted-by-rules-is-served", ssite+"/"+ruleKind(why, chain), fmt.Sprintf("%q must be admitted (%s) but was blocked\n%s", script[i].SQL, why, c05YAML(chain, ignoreParse)))
			}
			// what actually happened must be consistent on both sides
			if extended && blocked {
				rejectedAt = i
				base = len(w.Res.Violations)
			}
			if blocked {
				if bytes.Contains(toDB, mk) {
					w.Violate("C05", "blocked-statement-never-forwarded", ssite, fmt.Sprintf("%q was answered with a firewall error but reached the database", script[i].SQL))
				}
				if !res.Ready {
					w.Violate("C05", "blocked-statement-gets-error-and-ready", ssite, fmt.Sprintf("%q: no ready indication after the error", script[i].SQL))
				}
				continue
			}
			if !bytes.Contains(toDB, mk) {
				w.Violate("C05", "served-statement-is-forwarded", ssite, fmt.Sprintf("%q was not blocked but never reached the database", script[i].SQL))
				continue
			}
			// alignment: an admitted statement is processed by its own settings
			switch s.tmpl.name {
			case "sel_t2":
				if res.Err != "" || len(res.Rows) != 1 || string(res.Rows[0][0]) != fmt.Sprint(s.marker) || string(res.Rows[0][1]) != fmt.Sprintf("note-%d", s.marker) ||
					(len(res.Fields) > 0 && (len(res.Fields) != 2 || (!mysql && res.Fields[1].DataTypeOID != 25))) {
					got := "no row"
					if len(res.Rows) > 0 {
						got = fmt.Sprintf("%q", res.Rows[0])
					}
					w.Violate("C05", "served-after-rejection-uses-own-settings", ssite, fmt.Sprintf("%q returned %s err=%q (fields %d)", script[i].SQL, got, res.Err, len(res.Fields)))
				}
			}
		}
		if reuseAt >= 0 && len(run.Results) >= reuseAt+3 {
			first, rejected, again := run.Results[reuseAt], run.Results[reuseAt+1], run.Results[reuseAt+2]
			want := ""
			if len(first.Rows) == 1 && len(first.Rows[0]) == 2 {
				want = string(first.Rows[0][1])
			}
			switch {
			case first.Err != "" || !strings.HasPrefix(want, "PLAIN-"):
				w.Violate("C05", "admitted-by-rules-is-served", site+"/named-statement", fmt.Sprintf("%q under a name: err=%q rows=%.60q", script[reuseAt].SQL, first.Err, first.Rows))
			case !isBlocked(rejected):
				w.Violate("C05", "rejected-by-rules-is-blocked", site+"/named-statement", fmt.Sprintf("%q under the same name: err=%q", script[reuseAt+1].SQL, rejected.Err))
			case again.Err != "" || len(again.Rows) != 1 || len(again.Rows[0]) != 2 || string(again.Rows[0][1]) != want:
				w.Violate("C05", "served-after-rejection-uses-own-settings", site+"/named-statement", fmt.Sprintf("the statement prepared as %q, executed again by name after %q had been rejected under that name, returned err=%q rows=%.80q (first execution returned %q)", script[reuseAt].SQL, script[reuseAt+1].SQL, again.Err, again.Rows, want))
			default:
				w.Probe("named-statement-after-rejection")
			}
		}
		if directAt >= 0 && len(run.Results) >= directAt+3 {
			first, rejected, direct := run.Results[directAt], run.Results[directAt+1], run.Results[directAt+2]
			switch {
			case first.Err != "":
				w.Violate("C05", "admitted-by-rules-is-served", site+"/direct-execution", fmt.Sprintf("preparing %q: err=%q", script[directAt].SQL, first.Err))
			case !isBlocked(rejected):
				w.Violate("C05", "rejected-by-rules-is-blocked", site+"/direct-execution", fmt.Sprintf("preparing %q: err=%q", script[directAt+1].SQL, rejected.Err))
			case bytes.Contains(toDB, []byte("m990000")):
				w.Violate("C05", "blocked-statement-never-forwarded", site+"/direct-execution", fmt.Sprintf("%q was answered with a firewall error but reached the database", script[directAt+1].SQL))
			case direct.Err != "" || len(direct.Rows) != 1 || len(direct.Rows[0]) != 2 || string(direct.Rows[0][1]) != fmt.Sprintf("note-%s", direct.Rows[0][0]):
				w.Violate("C05", "served-after-rejection-uses-own-settings", site+"/direct-execution", fmt.Sprintf("executing the last prepared statement (%q) after %q had been rejected returned err=%q rows=%.80q", script[directAt].SQL, script[directAt+1].SQL, direct.Err, direct.Rows))
			default:
				w.Probe("direct-execution-after-rejection")
			}
		}
		w.State(fmt.Sprintf("chain=%d ignore=%v", len(chain), ignoreParse))
		w.Res.SimNanos = int64(time.Since(start))
		w.Res.Trivial = len(chain) == 0
	})
	return w.Finish()
}

func slugText(msg string) string {
	var sb strings.Builder
	for _, c := range strings.ToLower(msg) {
		if c >= 'a' && c <= 'z' {
			sb.WriteRune(c)
		} else if sb.Len() > 0 && sb.String()[sb.Len()-1] != '-' {
			sb.WriteByte('-')
		}
		if sb.Len() > 36 {
			break
		}
	}
	return strings.Trim(sb.String(), "-")
}

// ruleKind names the kind of rule that decided, for site signatures.
func ruleKind(why string, chain []c05Handler) string {
	var i int
	var kind string
	if n, _ := fmt.Sscanf(why, "handler %d %s", &i, &kind); n == 2 && i < len(chain) {
		h := chain[i]
		switch {
		case len(h.Queries) > 0:
			return kind + "-query"
		case len(h.Tables) > 0:
			return kind + "-table"
		case len(h.Patterns) > 0:
			p := h.Patterns[0]
			if p.Kind != "" {
				return kind + "-pattern-" + p.Kind
			}
			return kind + "-pattern-" + p.Template
		}
		return kind
	}
	return strings.ReplaceAll(why, " ", "-")
}
