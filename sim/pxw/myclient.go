package pxw

import (
	"context"
	"database/sql"
	"errors"
	"fmt"
	"net"
	"sync"
	"sync/atomic"

	"github.com/go-sql-driver/mysql"
	"github.com/jackc/pgx/v5/pgproto3"
)

// The MySQL client of the simulation is the go-sql-driver/mysql driver behind
// database/sql (an independent implementation of the protocol), dialled onto
// the simulated connection. Statements without arguments use the text protocol
// (COM_QUERY); statements marked Extended are prepared, executed with their
// arguments in the binary protocol and closed.

var (
	myDialMu  sync.Mutex
	myDialSeq atomic.Uint64
	myDials   = map[string]net.Conn{}
	myDialReg sync.Once
)

func registerMyDial(conn net.Conn) string {
	myDialReg.Do(func() {
		mysql.RegisterDialContext("sim", func(ctx context.Context, addr string) (net.Conn, error) {
			myDialMu.Lock()
			defer myDialMu.Unlock()
			c := myDials[addr]
			if c == nil {
				return nil, errors.New("simulated connection already used")
			}
			delete(myDials, addr)
			return c, nil
		})
		_ = mysql.SetLogger(discardLogger{})
	})
	addr := fmt.Sprintf("c%d", myDialSeq.Add(1))
	myDialMu.Lock()
	myDials[addr] = conn
	myDialMu.Unlock()
	return addr
}

type discardLogger struct{}

func (discardLogger) Print(v ...interface{}) {}

// driverLeak is set when the client driver panicked on what the proxy sent it (damaged database
// answers relayed by the proxy under fault injection). Its connection objects cannot be closed then
// (database/sql still holds the locks of the interrupted call), so their helper goroutines stay parked
// until the bubble ends; Bubble tolerates exactly that.
var driverLeak atomic.Bool

// runMyClient plays a script over the client end of the connection.
func runMyClient(conn net.Conn, script []Stmt, results []StmtResult) (err error) {
	addr := registerMyDial(conn)
	db, err := sql.Open("mysql", "sim@sim("+addr+")/sim?maxAllowedPacket=67108864")
	if err != nil {
		return err
	}
	db.SetMaxOpenConns(1)
	ctx := context.Background()
	var c *sql.Conn
	var stmts []*sql.Stmt
	clean := true
	defer func() {
		if !clean {
			driverLeak.Store(true)
			return
		}
		for _, ps := range stmts {
			ps.Close()
		}
		if c != nil {
			c.Close()
		}
		db.Close()
	}()
	guard := func(what string, f func() error) error {
		defer func() {
			if r := recover(); r != nil {
				clean = false
				err = fmt.Errorf("%s: client driver panicked on the bytes it received: %v", what, r)
			}
		}()
		return f()
	}
	if gerr := guard("startup", func() error {
		var e error
		c, e = db.Conn(ctx)
		return e
	}); gerr != nil || err != nil {
		if err != nil {
			return err
		}
		return fmt.Errorf("startup: %w", gerr)
	}
	for i, st := range script {
		res := &results[i]
		clientIdles(st.IdleBefore)
		gerr := guard(fmt.Sprintf("statement %d", i), func() error {
			var rows *sql.Rows
			var qerr error
			for _, pre := range st.Pre {
				if _, perr := c.ExecContext(ctx, pre); perr != nil {
					if fatal := recordMyErr(res, perr); fatal {
						return fmt.Errorf("statement %d (%q): %w", i, pre, perr)
					}
					res.Ready = true
					return nil
				}
			}
			if st.Extended {
				ps, perr := c.PrepareContext(ctx, st.SQL)
				if perr != nil {
					qerr = perr
				} else {
					stmts = append(stmts, ps)
					rows, qerr = ps.QueryContext(ctx, st.Args...)
				}
			} else {
				rows, qerr = c.QueryContext(ctx, st.SQL)
			}
			if qerr != nil {
				if fatal := recordMyErr(res, qerr); fatal {
					return fmt.Errorf("statement %d: %w", i, qerr)
				}
				res.Ready = true
				return nil
			}
			cols, _ := rows.Columns()
			types, _ := rows.ColumnTypes()
			for k, name := range cols {
				res.Fields = append(res.Fields, pgproto3.FieldDescription{Name: []byte(name)})
				if k < len(types) {
					res.MyTypes = append(res.MyTypes, types[k].DatabaseTypeName())
				}
			}
			for rows.Next() {
				cells := make([]sql.RawBytes, len(cols))
				ptrs := make([]interface{}, len(cols))
				for k := range cells {
					ptrs[k] = &cells[k]
				}
				if err := rows.Scan(ptrs...); err != nil {
					rows.Close()
					return fmt.Errorf("statement %d: scan: %w", i, err)
				}
				row := make([][]byte, len(cols))
				for k, cell := range cells {
					if cell != nil {
						row[k] = append([]byte{}, cell...)
					}
				}
				res.Rows = append(res.Rows, row)
			}
			rerr := rows.Err()
			rows.Close()
			if rerr != nil {
				if fatal := recordMyErr(res, rerr); fatal {
					return fmt.Errorf("statement %d: %w", i, rerr)
				}
			}
			res.Ready = true
			return nil
		})
		if err != nil {
			return err
		}
		if gerr != nil {
			return gerr
		}
	}
	return nil
}

// recordMyErr notes a statement-level error; connection-level errors are fatal for the session.
func recordMyErr(res *StmtResult, err error) bool {
	var me *mysql.MySQLError
	if errors.As(err, &me) {
		res.Err = me.Message
		res.ErrCode = fmt.Sprint(me.Number)
		return false
	}
	return true
}
