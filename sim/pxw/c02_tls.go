package pxw

import (
	"bytes"
	"context"
	"crypto/ecdsa"
	"crypto/elliptic"
	"crypto/rand"
	"crypto/tls"
	"crypto/x509"
	"crypto/x509/pkix"
	"fmt"
	"math/big"
	"net"
	"time"

	"google.golang.org/grpc/credentials"
	"google.golang.org/grpc/peer"

	translator "github.com/cossacklabs/acra/cmd/acra-translator/common"
	"github.com/cossacklabs/acra/cmd/acra-translator/grpc_api"
	"github.com/cossacklabs/acra/network"

	"verif/sim/kernel"
	"verif/sim/ksw"
)

// C02, TLS part: "when the identity is taken from the TLS connection the identity named inside a
// request is ignored". Two clients with their own certificates connect to AcraTranslator's gRPC
// credentials (real TLS handshakes over in-memory pipes, Acra's TLSConnectionWrapper and client-id
// extractor); both connections stay open. Every RPC of the TLS service wrapper is then called in
// one client's connection context with the other client's id written into the request.

type c02Cert struct {
	cert *x509.Certificate
	tls  tls.Certificate
}

func c02MakeCert(cn string, serial int64, ca *c02Cert, isCA, server bool) (*c02Cert, error) {
	key, err := ecdsa.GenerateKey(elliptic.P256(), rand.Reader)
	if err != nil {
		return nil, err
	}
	tmpl := &x509.Certificate{
		SerialNumber: big.NewInt(serial), Subject: pkix.Name{CommonName: cn, Organization: []string{"sim"}},
		NotBefore: time.Now().Add(-time.Hour), NotAfter: time.Now().Add(24 * time.Hour),
		KeyUsage: x509.KeyUsageDigitalSignature, BasicConstraintsValid: true,
	}
	switch {
	case isCA:
		tmpl.IsCA, tmpl.KeyUsage = true, x509.KeyUsageCertSign|x509.KeyUsageDigitalSignature
	case server:
		tmpl.ExtKeyUsage, tmpl.DNSNames = []x509.ExtKeyUsage{x509.ExtKeyUsageServerAuth}, []string{"localhost"}
	default:
		tmpl.ExtKeyUsage = []x509.ExtKeyUsage{x509.ExtKeyUsageClientAuth}
	}
	parent, signer := tmpl, key
	if ca != nil {
		parent, signer = ca.cert, ca.tls.PrivateKey.(*ecdsa.PrivateKey)
	}
	der, err := x509.CreateCertificate(rand.Reader, tmpl, parent, &key.PublicKey, signer)
	if err != nil {
		return nil, err
	}
	cert, err := x509.ParseCertificate(der)
	if err != nil {
		return nil, err
	}
	return &c02Cert{cert: cert, tls: tls.Certificate{Certificate: [][]byte{der}, PrivateKey: key}}, nil
}

// c02Connect performs the handshake of one client with the translator's credentials and returns the
// context a gRPC handler would see for requests on that connection.
func c02Connect(wrapper *network.TLSConnectionWrapper, pool *x509.CertPool, client *c02Cert) (context.Context, net.Conn, error) {
	cEnd, sEnd := net.Pipe()
	errCh := make(chan error, 1)
	go func() {
		conn := tls.Client(cEnd, &tls.Config{Certificates: []tls.Certificate{client.tls}, RootCAs: pool, ServerName: "localhost", NextProtos: []string{"h2"}})
		errCh <- conn.Handshake()
	}()
	conn, authInfo, err := wrapper.ServerHandshake(sEnd)
	if cerr := <-errCh; cerr != nil && err == nil {
		err = cerr
	}
	if err != nil {
		cEnd.Close()
		sEnd.Close()
		return nil, nil, err
	}
	return peer.NewContext(context.Background(), &peer.Peer{AuthInfo: authInfo, Addr: conn.RemoteAddr()}), cEnd, nil
}

var _ credentials.AuthInfo

func c02TLS(w *kernel.World, cw *cryptoWorld) {
	fail := func(what string, err error) { w.Violate("C02", "tls-world-builds", what, err.Error()) }
	ca, err := c02MakeCert("sim CA", 1, nil, true, false)
	if err != nil {
		fail("ca", err)
		return
	}
	server, err1 := c02MakeCert("localhost", 2, ca, false, true)
	certA, err2 := c02MakeCert("client A of the simulation", 3, ca, false, false)
	// In half of the runs the service trusts two authorities (one per tenant) and the two clients hold
	// certificates with the same serial number, one from each: serial numbers are unique per issuer only.
	caB, serialB := ca, int64(4)
	var err4 error
	if kernel.NewRNG(w.Plan.Seed, 0x7c5a).Intn(2) == 1 {
		caB, err4 = c02MakeCert("sim CA of another tenant", 1, nil, true, false)
		serialB = 3
	}
	if err4 != nil {
		fail("ca", err4)
		return
	}
	certB, err3 := c02MakeCert("client B of the simulation", serialB, caB, false, false)
	for _, e := range []error{err1, err2, err3} {
		if e != nil {
			fail("certificates", e)
			return
		}
	}
	pool := x509.NewCertPool()
	pool.AddCert(ca.cert)
	pool.AddCert(caB.cert)
	extractor, err := network.NewDefaultTLSClientIDExtractor()
	if err != nil {
		fail("extractor", err)
		return
	}
	serverCfg := &tls.Config{Certificates: []tls.Certificate{server.tls}, ClientAuth: tls.RequireAndVerifyClientCert, ClientCAs: pool, MinVersion: tls.VersionTLS12}
	wrapper, err := network.NewTLSAuthenticationConnectionWrapper(true, nil, serverCfg, extractor)
	if err != nil {
		fail("wrapper", err)
		return
	}
	// the identities Acra derives from the certificates, and keys for them
	idA, errA := extractor.ExtractClientID(certA.cert)
	idB, errB := extractor.ExtractClientID(certB.cert)
	if errA != nil || errB != nil {
		fail("client ids", fmt.Errorf("%v %v", errA, errB))
		return
	}
	idA, idB = append([]byte{}, idA...), append([]byte{}, idB...)
	if bytes.Equal(idA, idB) {
		w.Violate("C02", "distinct-clients-distinct-identities", "tls", fmt.Sprintf("both certificates map to client id %q", idA))
		return
	}
	ks := cw.pw.KS
	for _, id := range [][]byte{idA, idB} {
		for _, kind := range []string{ksw.KStoragePair, ksw.KStorageSym, ksw.KHmac} {
			if err := ks.Generate(kind, id); err != nil {
				fail("keys", err)
				return
			}
		}
	}
	// A connects and stays connected, then B connects
	ctxA, connA, err := c02Connect(wrapper, pool, certA)
	if err != nil {
		fail("handshake A", err)
		return
	}
	defer connA.Close()
	ctxB, connB, err := c02Connect(wrapper, pool, certB)
	if err != nil {
		fail("handshake B", err)
		return
	}
	defer connB.Close()
	data := &translator.TranslatorData{Keystorage: ks.KS, PoisonRecordCallbacks: cw.pw.Poison, Tokenizer: cw.pw.Tokenizer}
	grpcSvc, err := grpc_api.NewTranslatorService(cw.svc, data)
	if err != nil {
		fail("grpc service", err)
		return
	}
	svc, err := grpc_api.NewTLSDecryptServiceWrapper(grpcSvc, extractor)
	if err != nil {
		fail("tls service wrapper", err)
		return
	}
	plain := []byte("SECRET-OF-TLS-CLIENT-B-0123456789")
	contains := func(b []byte) bool { return bytes.Contains(b, plain) }
	// B protects its value; the request names A, which must be ignored
	sym, err := svc.EncryptSym(ctxB, &grpc_api.EncryptSymRequest{ClientId: append([]byte{}, idA...), Data: plain})
	if err != nil {
		fail("EncryptSym", err)
		return
	}
	asym, err := svc.Encrypt(ctxB, &grpc_api.EncryptRequest{ClientId: append([]byte{}, idA...), Data: plain})
	if err != nil {
		fail("Encrypt", err)
		return
	}
	ssym, err := svc.EncryptSymSearchable(ctxB, &grpc_api.SearchableSymEncryptionRequest{ClientId: append([]byte{}, idA...), Data: plain})
	if err != nil {
		fail("EncryptSymSearchable", err)
		return
	}
	sasym, err := svc.EncryptSearchable(ctxB, &grpc_api.SearchableEncryptionRequest{ClientId: append([]byte{}, idA...), Data: plain})
	if err != nil {
		fail("EncryptSearchable", err)
		return
	}
	tok, err := svc.Tokenize(ctxB, &grpc_api.TokenizeRequest{ClientId: append([]byte{}, idA...), Value: &grpc_api.TokenizeRequest_StrValue{StrValue: string(plain)}})
	if err != nil {
		fail("Tokenize", err)
		return
	}
	type rpc struct {
		name string
		call func(ctx context.Context, forged []byte) ([]byte, error)
	}
	rpcs := []rpc{
		{"DecryptSym", func(ctx context.Context, id []byte) ([]byte, error) {
			r, err := svc.DecryptSym(ctx, &grpc_api.DecryptSymRequest{ClientId: id, Acrablock: sym.Acrablock})
			return r.GetData(), err
		}},
		{"Decrypt", func(ctx context.Context, id []byte) ([]byte, error) {
			r, err := svc.Decrypt(ctx, &grpc_api.DecryptRequest{ClientId: id, Acrastruct: asym.Acrastruct})
			return r.GetData(), err
		}},
		{"DecryptSymSearchable", func(ctx context.Context, id []byte) ([]byte, error) {
			r, err := svc.DecryptSymSearchable(ctx, &grpc_api.SearchableSymDecryptionRequest{ClientId: id, Data: ssym.Acrablock, Hash: ssym.Hash})
			return r.GetData(), err
		}},
		{"DecryptSearchable", func(ctx context.Context, id []byte) ([]byte, error) {
			r, err := svc.DecryptSearchable(ctx, &grpc_api.SearchableDecryptionRequest{ClientId: id, Data: sasym.Acrastruct, Hash: sasym.Hash})
			return r.GetData(), err
		}},
		{"Detokenize", func(ctx context.Context, id []byte) ([]byte, error) {
			r, err := svc.Detokenize(ctx, &grpc_api.TokenizeRequest{ClientId: id, Value: &grpc_api.TokenizeRequest_StrValue{StrValue: tok.GetStrToken()}})
			return []byte(r.GetStrToken()), err
		}},
	}
	for _, r := range rpcs {
		// the owner's connection reveals, whatever id the request names
		out, err, pv := c02Guard(func() ([]byte, error) { return r.call(ctxB, append([]byte{}, idA...)) })
		switch {
		case pv != nil:
			w.Violate("C14", "no-panic", "tls/"+r.name, fmt.Sprint(pv))
		case err != nil || !bytes.Equal(out, plain):
			w.Violate("C02", "request-identity-ignored-for-owner", "tls/"+r.name, fmt.Sprintf("on B's connection with A's id in the request: err=%v, %d bytes returned", err, len(out)))
		}
		// the other client's connection does not, even when the request names the owner
		out, err, pv = c02Guard(func() ([]byte, error) { return r.call(ctxA, append([]byte{}, idB...)) })
		switch {
		case pv != nil:
			w.Violate("C14", "no-panic", "tls/"+r.name, fmt.Sprint(pv))
		case err == nil && contains(out):
			w.Violate("C02", "forged-request-identity-never-gets-plaintext", "tls/"+r.name, fmt.Sprintf("on A's connection a request naming B revealed B's value through %s", r.name))
		}
	}
	w.Probe("tls-forged-identity")
}

func c02Guard(f func() ([]byte, error)) (out []byte, err error, pv interface{}) {
	defer func() {
		if r := recover(); r != nil {
			pv = r
		}
	}()
	out, err = f()
	return
}
