package pxw

import (
	"bytes"
	"encoding/hex"
	"fmt"
	"strconv"
	"strings"
	"testing"
	"time"

	log "github.com/sirupsen/logrus"

	"verif/sim/kernel"
)

func init() { log.SetLevel(log.PanicLevel) }

// C04 — the SQL proxy stores only protected forms and restores originals.
//
// World: client(s) <-> real PgProxy <-> simulated PostgreSQL. A schema with
// protected columns of drawn kinds is configured; an owner session writes
// marked values with INSERT/UPDATE in drawn statement shapes and protocols and
// reads them back; a second session under another identity reads the same
// rows. Deliveries on the four byte streams are scheduled from the tape.
type C04 struct{}

func (C04) ID() string { return "C04" }

// colKind describes one protected column of the generated schema.
type colKind struct {
	Name     string
	Envelope string // acrablock | acrastruct
	Search   bool
	Mask     bool
	MaskLen  int
	MaskSide string
	Token    string // "", str, bytes, int32, int64, email
	DataType string // "", str, bytes, int32, int64
	OnFail   string // "", ciphertext, default_value, error
	Default  string
	ClientID string // "" = connection identity
}

const (
	owner    = "client_owner"
	stranger = "client_stranger"
	maskPat  = "xxxx"
)

// schemaYAML renders the encryptor configuration for table t1.
func schemaYAML(cols []colKind) string {
	var sb strings.Builder
	sb.WriteString("schemas:\n  - table: t1\n    columns:\n      - id\n      - plain\n")
	for _, c := range cols {
		fmt.Fprintf(&sb, "      - %s\n", c.Name)
	}
	sb.WriteString("    encrypted:\n")
	for _, c := range cols {
		fmt.Fprintf(&sb, "      - column: %s\n", c.Name)
		if c.ClientID != "" {
			fmt.Fprintf(&sb, "        client_id: %s\n", c.ClientID)
		}
		if c.Token != "" {
			fmt.Fprintf(&sb, "        token_type: %s\n        consistent_tokenization: true\n", c.Token)
			continue
		}
		fmt.Fprintf(&sb, "        crypto_envelope: %s\n", c.Envelope)
		if c.Search {
			sb.WriteString("        searchable: true\n")
		}
		if c.Mask {
			fmt.Fprintf(&sb, "        masking: %q\n        plaintext_length: %d\n        plaintext_side: %q\n", maskPat, c.MaskLen, c.MaskSide)
		}
		if c.DataType != "" {
			fmt.Fprintf(&sb, "        data_type: %q\n", c.DataType)
			if c.OnFail != "" {
				fmt.Fprintf(&sb, "        response_on_fail: %s\n", c.OnFail)
				if c.OnFail == "default_value" {
					fmt.Fprintf(&sb, "        default_data_value: %q\n", c.Default)
				}
			}
		}
	}
	return sb.String()
}

// drawCols draws the protected columns of a run from swarm knobs.
func drawCols(r *kernel.RNG, want string) []colKind {
	n := 1 + r.Intn(3)
	cols := make([]colKind, 0, n)
	for i := 0; i < n; i++ {
		c := colKind{Name: fmt.Sprintf("c%d", i+1), Envelope: r.Pick("acrablock", "acrastruct")}
		kind := want
		if kind == "" {
			kind = r.Pick("plain", "plain", "search", "mask", "token", "typed")
		}
		switch kind {
		case "search":
			c.Search = true
		case "mask":
			c.Mask, c.MaskLen, c.MaskSide = true, r.Intn(8), r.Pick("left", "right")
		case "token":
			// integer tokens are left to C10: their decimal length depends on the random
			// value, and Acra draws randomness for bound parameters in Go map order, which
			// would make byte counts (and so chunked schedules) differ between executions
			c.Token = r.Pick("str", "bytes", "email")
		case "typed":
			c.DataType = r.Pick("str", "bytes", "int32", "int64")
			c.OnFail = r.Pick("", "ciphertext", "default_value", "error")
			switch c.DataType {
			case "str":
				c.Default = "defaultstr"
			case "bytes":
				c.Default = "ZGVmYXVsdGJ5dGVz"
			default:
				c.Default = strconv.Itoa(1000 + r.Intn(1000))
			}
		}
		cols = append(cols, c)
	}
	return cols
}

func (c colKind) numeric() bool {
	return c.Token == "int32" || c.Token == "int64" || c.DataType == "int32" || c.DataType == "int64"
}

func (c colKind) dbType() string {
	if c.Token == "int32" {
		return TInt4
	}
	if c.Token == "int64" {
		return TInt8
	}
	if c.Token == "str" || c.Token == "email" {
		return TText
	}
	return TBytea
}

// marker makes a unique value for (row, column) that cannot occur by chance.
func marker(c colKind, row, ver int) string {
	switch {
	case c.Token == "int32" || c.DataType == "int32":
		return strconv.Itoa(1100000000 + row*7919 + ver*104729)
	case c.numeric():
		return strconv.FormatInt(770000000000000+int64(row)*1000003+int64(ver)*7, 10)
	case c.Token == "email":
		return fmt.Sprintf("mk%dr%dv%d@example.com", len(c.Name), row, ver)
	}
	return fmt.Sprintf("MK%sr%03dv%02dQZJXKWPLMARK", c.Name, row, ver)
}

func (C04) Explore(x *kernel.Explorer, seed uint64) {
	r := kernel.NewRNG(seed, 0xc04)
	for i := 0; i < 4 && !x.Expired(); i++ {
		plan := &kernel.Plan{Prop: "C04", Seed: kernel.Mix(seed, uint64(i)), Swarm: map[string]int64{"idlenth": int64([]int{0, 0, 0, 2, 3}[r.Intn(5)]), "pgreexec": int64(r.Intn(2)), "fetch": int64([]int{0, 0, 1, 2}[r.Intn(4)]),
			"chunk": int64(r.Intn(4)), "colseed": int64(r.Uint32()), "stranger": int64(r.Intn(2)),
			"mysql": int64(r.Intn(3) / 2), "depeof": int64(r.Intn(2)), "rawmy": int64(r.Intn(2)), "reexec": int64(r.Intn(2)), "longdata": int64(r.Intn(4) / 3), "wyield": int64(r.Intn(2)), "ctrl": int64(r.Intn(3) / 2)}}
		plan.Swarm["ksv2"] = int64(r.Intn(3) / 2)
		if r.Chance(1, 6) {
			// one call into the token storage fails with an I/O error
			plan.Swarm["tokfault"] = int64(1 + r.Intn(12))
		}
		if r.Chance(1, 4) {
			// a key store read fails with an I/O error somewhere in the session
			plan.Swarm["keyfault"] = int64(1 + r.Intn(40))
		}
		n := 2 + r.Intn(8)
		for j := 0; j < n; j++ {
			kind := r.Pick("insert", "insert", "insert-multi", "insert-nocols", "update", "select", "select-star", "insert-returning", "db-error")
			plan.Ops = append(plan.Ops, kernel.Op{ID: j + 1, Kind: kind,
				A: []int64{int64(r.Intn(2)), int64(r.Intn(3)), int64(r.Intn(2)), int64(r.Intn(1000))}})
		}
		x.Exec(plan)
	}
}

// sqlQuote renders a string literal.
func sqlQuote(s string) string { return "'" + strings.ReplaceAll(s, "'", "''") + "'" }

type c04Row struct {
	id    int
	plain string
	vals  []string // per protected column
}

// literalFor renders a value as a literal for a column (mode: 0 plain string, 1 hex bytea).
func literalFor(c colKind, v string, mode int) string {
	if c.numeric() {
		return v
	}
	// hex spelling only where the column has bytea semantics for the client
	// (a declared data type makes the literal text, hex digits included)
	if mode == 1 && c.dbType() == TBytea && c.DataType == "" {
		return "'\\x" + hex.EncodeToString([]byte(v)) + "'"
	}
	return sqlQuote(v)
}

func decodeClientCell(oid uint32, format int16, cell []byte) []byte {
	if cell == nil {
		return nil
	}
	if format == 0 && oid == 17 {
		b, err := decodeBytea(cell)
		if err == nil {
			return b
		}
	}
	return cell
}

func (C04) Run(t *testing.T, plan *kernel.Plan, keepLog bool) *kernel.Result {
	if plan.Sw("mysql") == 1 {
		return c04MySQL(t, plan, keepLog)
	}
	w := kernel.NewWorld(plan, keepLog)
	Bubble(t, plan.Seed, func() {
		start := time.Now()
		rng := kernel.NewRNG(plan.Seed, 0xd04c)
		cols := drawCols(kernel.NewRNG(uint64(plan.Sw("colseed")), 4), "")
		pw, err := NewPgWorld(w, rng, PgWorldConfig{SchemaYAML: schemaYAML(cols), Clients: []string{owner, stranger}, ChunkMode: int(plan.Sw("chunk")),
			KeyFaultNth: int(plan.Sw("keyfault")), KeystoreV2: plan.Sw("ksv2") == 1, TokenFaultNth: int(plan.Sw("tokfault"))})
		if err != nil {
			w.Violate("C04", "world-builds", "pg", err.Error())
			return
		}
		dbCols := []Col{{"id", TInt4}, {"plain", TText}}
		for _, c := range cols {
			dbCols = append(dbCols, Col{c.Name, c.dbType()})
		}
		pw.WriteYield = plan.Sw("wyield") == 1
		pw.DB.AddTable("t1", dbCols...)
		pw.DB.AddTable("t2", Col{"id", TInt4}, Col{"note", TText}) // not covered by the configuration
		// --- build the owner's script and the model
		var script []Stmt
		var rows []*c04Row
		var protectedMarks [][]byte // plaintexts that must never reach the database
		ver := 0
		colNames := []string{"id", "plain"}
		for _, c := range cols {
			colNames = append(colNames, c.Name)
		}
		newRow := func() *c04Row {
			ver++
			row := &c04Row{id: len(rows) + 1, plain: fmt.Sprintf("plain-%d-%d", len(rows)+1, ver)}
			for _, c := range cols {
				v := marker(c, row.id, ver)
				if plan.Sw("ctrl") == 1 && plan.Sw("mysql") == 0 && !c.numeric() && c.Token == "" && row.id%2 == 1 {
					// text with a control character: as a Bind parameter it is no escaped bytea value
					v = v[:6] + "\t" + v[6:] + "\nline2"
				}
				row.vals = append(row.vals, v)
				protectedMarks = append(protectedMarks, []byte(v))
			}
			rows = append(rows, row)
			return row
		}
		valuesOf := func(row *c04Row, op kernel.Op, params *[][]byte, formats *[]int16, useParams bool, binary bool) string {
			var parts []string
			// every second row of a binary statement sends all its parameters in the binary format (the id as a
			// 4-byte integer), as drivers that prefer the binary format do; only without numeric protected columns
			allBinary := binary && row.id%2 == 0
			for i := range cols {
				if cols[i].numeric() {
					allBinary = false
				}
			}
			add := func(lit string, raw []byte, c *colKind) {
				if useParams {
					f := int16(0)
					if binary && c != nil && !c.numeric() {
						f = 1
					}
					if allBinary {
						f = 1
						if c == nil && lit == strconv.Itoa(row.id) && len(*params)%(2+len(cols)) == 0 {
							raw = []byte{byte(row.id >> 24), byte(row.id >> 16), byte(row.id >> 8), byte(row.id)}
						}
					}
					*params = append(*params, raw)
					*formats = append(*formats, f)
					parts = append(parts, fmt.Sprintf("$%d", len(*params)))
					return
				}
				parts = append(parts, lit)
			}
			add(strconv.Itoa(row.id), []byte(strconv.Itoa(row.id)), nil)
			add(sqlQuote(row.plain), []byte(row.plain), nil)
			for i := range cols {
				add(literalFor(cols[i], row.vals[i], int(op.Arg(1, 0))%2), []byte(row.vals[i]), &cols[i])
			}
			return "(" + strings.Join(parts, ", ") + ")"
		}
		for _, op := range plan.Ops {
			useParams := op.Arg(0, 0) == 1
			binary := op.Arg(2, 0) == 1
			st := Stmt{Extended: useParams, Tag: op.Kind}
			switch op.Kind {
			case "insert", "insert-nocols", "insert-returning", "insert-multi":
				n := 1
				if op.Kind == "insert-multi" {
					n = 2 + int(op.Arg(3, 0))%2
				}
				var vals []string
				for k := 0; k < n; k++ {
					vals = append(vals, valuesOf(newRow(), op, &st.Params, &st.ParamFormats, useParams, binary))
				}
				st.SQL = "INSERT INTO t1 (" + strings.Join(colNames, ", ") + ") VALUES " + strings.Join(vals, ", ")
				if op.Kind == "insert-nocols" {
					st.SQL = "INSERT INTO t1 VALUES " + strings.Join(vals, ", ")
				}
				if op.Kind == "insert-returning" {
					st.SQL += " RETURNING " + strings.Join(colNames, ", ")
				}
			case "db-error":
				// a statement the database answers with an error (unknown table)
				st.SQL = fmt.Sprintf("SELECT id, note FROM no_such_table WHERE id = %d", op.Arg(3, 0))
				st.Extended = false
			case "update":
				if len(rows) == 0 {
					continue
				}
				row := rows[int(op.Arg(3, 0))%len(rows)]
				ver++
				ci := int(op.Arg(1, 0)) % len(cols)
				nv := marker(cols[ci], row.id, ver)
				protectedMarks = append(protectedMarks, []byte(nv))
				row.vals[ci] = nv
				if useParams {
					st.Params = [][]byte{[]byte(nv)}
					st.ParamFormats = []int16{0}
					st.SQL = fmt.Sprintf("UPDATE t1 SET %s = $1 WHERE id = %d", cols[ci].Name, row.id)
				} else {
					st.SQL = fmt.Sprintf("UPDATE t1 SET %s = %s WHERE id = %d", cols[ci].Name, literalFor(cols[ci], nv, 0), row.id)
				}
			case "select", "select-star":
				if len(rows) == 0 {
					continue
				}
				row := rows[int(op.Arg(3, 0))%len(rows)]
				list := strings.Join(colNames, ", ")
				if op.Kind == "select-star" {
					list = "*"
				}
				st.SQL = fmt.Sprintf("SELECT %s FROM t1 WHERE id = %d", list, row.id)
				st.Tag = fmt.Sprintf("select:%d", row.id)
				if useParams && binary {
					st.ResultFormats = []int16{1}
				}
			}
			script = append(script, st)
		}
		// untouched traffic: a table the configuration does not cover
		script = append(script, Stmt{SQL: "INSERT INTO t2 (id, note) VALUES (1, 'MKnote-not-protected')", Tag: "plain"})
		script = append(script, Stmt{SQL: "SELECT id, note FROM t2 WHERE id = 1", Tag: "plain-select"})
		// final read-back of every row by the owner
		for _, row := range rows {
			script = append(script, Stmt{SQL: fmt.Sprintf("SELECT %s FROM t1 WHERE id = %d", strings.Join(colNames, ", "), row.id), Tag: fmt.Sprintf("final:%d", row.id)})
		}
		// consistent tokenization: the owner finds a row by the value of a tokenized column, bound as the second
		// parameter after a value for an ordinary column (the proxy replaces it by the token; a value that went
		// through unreplaced would also show in the database-side stream)
		for k, row := range rows {
			if k >= 2 {
				break
			}
			for ci, c := range cols {
				if c.Token == "" {
					continue
				}
				script = append(script, Stmt{SQL: fmt.Sprintf("SELECT id FROM t1 WHERE plain = $1 AND %s = $2", c.Name), Extended: true,
					Params: [][]byte{[]byte(row.plain), []byte(row.vals[ci])}, Tag: fmt.Sprintf("find:%d:%d", row.id, ci)})
			}
		}
		run := pw.RunSession(owner, script)
		if w.Res.Cut {
			return
		}
		for _, p := range pw.Panics {
			w.Violate("C14", "no-panic", "pg/proxy", p)
		}
		keyFault := pw.KeyFaultFired()
		if keyFault {
			w.Res.Fired["keystore-io-error"]++
		}
		if pw.TokenFaultFired() {
			w.Res.Fired["token-store-io-error"]++
			keyFault = true // same relaxed expectations: statements may fail, nothing may leak
		}
		if run.Stuck && !keyFault {
			w.Violate("C04", "session-makes-progress", "pg", fmt.Sprintf("session stuck after %d deliveries; client error %q; proxy errors %v", run.Steps, run.ClientErr, run.ProxyErrs))
			return
		}
		// (a) nothing forwarded to the database contains a protected plaintext
		toDB := run.ToDB.Log
		for _, m := range protectedMarks {
			for name, enc := range encodings(m) {
				if bytes.Contains(toDB, enc) {
					site := "pg/" + name
					if pw.TokenFaultFired() {
						site = "pg/token-store-fault"
					}
					w.Violate("C04", "no-plaintext-to-database", site, fmt.Sprintf("the database-side stream contains protected value %q (%s form)", m, name))
					break
				}
			}
		}
		if keyFault {
			// A key could not be read from storage in the middle of the session: statements may fail and the
			// session may end, but nothing protected may have gone to the database in clear (checked above) and
			// nothing but the right value may have been revealed.
			for i, st := range script {
				res := run.Results[i]
				if !strings.HasPrefix(st.Tag, "final:") || res.Err != "" || len(res.Rows) != 1 || len(res.Rows[0]) != len(colNames) {
					continue
				}
				var id int
				fmt.Sscanf(st.Tag[6:], "%d", &id)
				for ci, c := range cols {
					cell := decodeClientCell(res.Fields[2+ci].DataTypeOID, res.Fields[2+ci].Format, res.Rows[0][2+ci])
					for _, other := range rows {
						if other.id != id && len(other.vals[ci]) >= 8 && string(cell) == other.vals[ci] {
							w.Violate("C04", "owner-reads-original", "pg/keystore-fault/"+c.describe(), fmt.Sprintf("row %d column %s came back as row %d's value", id, c.Name, other.id))
						}
					}
				}
			}
			w.Probe("keystore-fault-session")
			w.State(fmt.Sprintf("cols=%v rows=%d keyfault", len(cols), len(rows)))
			w.Res.SimNanos = int64(time.Since(start))
			return
		}
		// (c) uncovered statements arrive byte-identical
		sawPlain := false
		for _, s := range pw.DB.Statements {
			if s == "INSERT INTO t2 (id, note) VALUES (1, 'MKnote-not-protected')" {
				sawPlain = true
			}
		}
		if !sawPlain {
			w.Violate("C04", "uncovered-statement-unchanged", "pg", "statement on an unconfigured table did not reach the database byte-identical")
		}
		// (b) the owner reads back what was written
		for i, st := range script {
			res := run.Results[i]
			if strings.HasPrefix(st.Tag, "final:") || strings.HasPrefix(st.Tag, "select:") {
				var id int
				fmt.Sscanf(st.Tag[strings.Index(st.Tag, ":")+1:], "%d", &id)
				if !strings.HasPrefix(st.Tag, "final:") {
					continue // intermediate selects are compared only at the end (values change)
				}
				row := rows[id-1]
				if res.Err != "" || len(res.Rows) != 1 {
					w.Violate("C04", "owner-reads-original", "pg/select", fmt.Sprintf("%s: err=%q rows=%d", st.SQL, res.Err, len(res.Rows)))
					continue
				}
				got := res.Rows[0]
				if len(got) != len(colNames) || len(res.Fields) != len(colNames) {
					w.Violate("C04", "owner-reads-original", "pg/shape", fmt.Sprintf("%s: %d cells", st.SQL, len(got)))
					continue
				}
				if string(got[0]) != strconv.Itoa(row.id) || string(got[1]) != row.plain {
					w.Violate("C04", "uncovered-column-unchanged", "pg", fmt.Sprintf("row %d: id/plain came back as %q/%q", row.id, got[0], got[1]))
				}
				for ci, c := range cols {
					cell := decodeClientCell(res.Fields[2+ci].DataTypeOID, res.Fields[2+ci].Format, got[2+ci])
					if string(cell) != row.vals[ci] {
						w.Violate("C04", "owner-reads-original", "pg/"+c.describe(), fmt.Sprintf("row %d column %s: wrote %q, read %.80q (type oid %d)", row.id, c.Name, row.vals[ci], cell, res.Fields[2+ci].DataTypeOID))
					}
				}
			}
			if strings.HasPrefix(st.Tag, "find:") {
				var id, ci int
				fmt.Sscanf(st.Tag, "find:%d:%d", &id, &ci)
				found := false
				for _, r := range res.Rows {
					found = found || (len(r) == 1 && string(r[0]) == strconv.Itoa(id))
				}
				if res.Err != "" || !found {
					w.Violate("C04", "owner-finds-row-by-tokenized-value", "pg/"+cols[ci].describe(), fmt.Sprintf("%s with (%q, %q): err=%q rows=%q", st.SQL, st.Params[0], st.Params[1], res.Err, res.Rows))
				}
			}
			if st.Tag == "plain-select" {
				if len(res.Rows) != 1 || string(res.Rows[0][1]) != "MKnote-not-protected" {
					w.Violate("C04", "uncovered-column-unchanged", "pg/t2", fmt.Sprintf("unconfigured table read back as %q", res.Rows))
				}
			}
			if st.Tag == "insert-returning" && res.Err == "" && len(res.Rows) == 1 {
				w.Probe("returning-checked")
			}
		}
		// a client without the keys never receives a protected plaintext
		if plan.Sw("stranger") == 1 && len(rows) > 0 {
			var sscript []Stmt
			for _, row := range rows {
				sscript = append(sscript, Stmt{SQL: fmt.Sprintf("SELECT %s FROM t1 WHERE id = %d", strings.Join(colNames, ", "), row.id)})
			}
			srun := pw.RunSession(stranger, sscript)
			for _, m := range protectedMarks {
				if bytes.Contains(srun.ToClient.Log, m) || bytes.Contains(srun.ToClient.Log, []byte(hex.EncodeToString(m))) {
					// tokenized and masked columns legitimately differ: tokens are checked by C10, windows by C11
					w.Violate("C04", "stranger-never-gets-plaintext", "pg", fmt.Sprintf("a client without keys received %q", m))
					break
				}
			}
			w.Probe("stranger-session")
		}
		w.State(fmt.Sprintf("cols=%v rows=%d", len(cols), len(rows)))
		w.Res.SimNanos = int64(time.Since(start))
		w.Res.Trivial = len(rows) == 0
	})
	return w.Finish()
}

func (c colKind) describe() string {
	switch {
	case c.Token != "":
		return "token-" + c.Token
	case c.Mask:
		return c.Envelope + "-masked"
	case c.Search:
		return c.Envelope + "-searchable"
	case c.DataType != "":
		return c.Envelope + "-typed-" + c.DataType
	}
	return c.Envelope
}

// encodings of a plaintext as it could appear on the wire.
func encodings(m []byte) map[string][]byte {
	out := map[string][]byte{"raw": m, "hex": []byte(hex.EncodeToString(m)), "HEX": []byte(strings.ToUpper(hex.EncodeToString(m)))}
	var oct strings.Builder
	for _, b := range m {
		fmt.Fprintf(&oct, "\\%03o", b)
	}
	out["octal"] = []byte(oct.String())
	return out
}
