package pxw

import (
	"bytes"
	"context"
	"fmt"
	"strings"
	"testing"
	"time"

	"github.com/cossacklabs/acra/acrablock"
	translator "github.com/cossacklabs/acra/cmd/acra-translator/common"
	"github.com/cossacklabs/acra/crypto"
	"github.com/cossacklabs/acra/poison"
	"github.com/cossacklabs/themis/gothemis/keys"

	"verif/sim/kernel"
	"verif/sim/ksw"
)

// C15 — poison records always raise the alarm, ordinary data never does.
//
// The keystore holds poison keys with a drawn rotation history; poison records
// of both envelope kinds are created under the key that was current at a drawn
// point of that history and planted by the simulated database into cells of
// protected and unprotected columns, alone or embedded among other bytes, in
// any row of a result. A recording callback notes how much of the result had
// been written to the client connection when it ran. Negatives: random bytes,
// valid client envelopes, truncated and bit-flipped poison records.
type C15 struct{}

func (C15) ID() string { return "C15" }

func (C15) Explore(x *kernel.Explorer, seed uint64) {
	r := kernel.NewRNG(seed, 0xc15)
	for i := 0; i < 4 && !x.Expired(); i++ {
		plan := &kernel.Plan{Prop: "C15", Seed: kernel.Mix(seed, uint64(i)), Swarm: map[string]int64{
			"chunk": int64(r.Intn(4)), "rot_pair": int64(r.Intn(4)), "rot_sym": int64(r.Intn(4)), "binary": int64(r.Intn(2)), "mysql": int64(r.Intn(3) / 2), "depeof": int64(r.Intn(2)), "rawmy": int64(r.Intn(2)), "reexec": int64(r.Intn(2)), "wyield": int64(r.Intn(2)), "mask": int64(r.Intn(3) / 2)}}
		n := 1 + r.Intn(6)
		for j := 0; j < n; j++ {
			// A: kind (0 asym poison,1 sym poison,2 random,3 client envelope,4 truncated poison,5 bit-flipped poison),
			//    key age, embedding (0 alone,1 prefix+suffix), column (0 protected,1 unprotected), offset seed
			plan.Ops = append(plan.Ops, kernel.Op{ID: j + 1, Kind: "cell", A: []int64{int64(r.Intn(6)), int64(r.Intn(4)), int64(r.Intn(2)), int64(r.Intn(2)), int64(r.Intn(40))}})
		}
		x.Exec(plan)
	}
}

type c15Callback struct {
	calls []int // bytes written to the client when the callback ran
	cur   *SessionRunRef
}

// SessionRunRef lets the callback see the running session's client stream.
type SessionRunRef struct{ toClient *stream }

func (c *c15Callback) Call() error {
	n := -1
	if c.cur != nil && c.cur.toClient != nil {
		c.cur.toClient.mu.Lock()
		n = len(c.cur.toClient.Log)
		c.cur.toClient.mu.Unlock()
	}
	c.calls = append(c.calls, n)
	return nil
}

func (C15) Run(t *testing.T, plan *kernel.Plan, keepLog bool) *kernel.Result {
	w := kernel.NewWorld(plan, keepLog)
	Bubble(t, plan.Seed, func() {
		start := time.Now()
		rng := kernel.NewRNG(plan.Seed, 0xd15c)
		cb := &c15Callback{cur: &SessionRunRef{}}
		cols := []colKind{{Name: "c1", Envelope: "acrablock"}}
		if plan.Sw("mask") == 1 {
			// the protected column is a masked one: a value that cannot be revealed comes back as the pattern
			cols[0].Mask, cols[0].MaskLen, cols[0].MaskSide = true, 3, "left"
		}
		mysql := plan.Sw("mysql") == 1
		dbms := map[bool]string{false: "pg", true: "mysql"}[mysql]
		pw, err := NewPgWorld(w, rng, PgWorldConfig{SchemaYAML: schemaYAML(cols), Clients: []string{owner}, ChunkMode: int(plan.Sw("chunk")), PoisonCalls: cb,
			MySQL: mysql, MyDeprecateEOF: plan.Sw("depeof") == 1})
		if err != nil {
			w.Violate("C15", "world-builds", "pg", err.Error())
			return
		}
		pw.runRef = cb.cur
		t1 := pw.DB.AddTable("t1", Col{"id", TInt4}, Col{"plain", TText}, Col{"c1", TBytea})
		t3 := pw.DB.AddTable("t3", Col{"id", TInt4}, Col{"plain", TText}, Col{"raw", TBytea})
		// poison key histories; a record is made under the key current at its "age"
		var pairRecs, symRecs [][]byte
		mk := pw.KS.Mk
		for i := 0; i <= int(plan.Sw("rot_pair")); i++ {
			time.Sleep(time.Second)
			if err := mk.GeneratePoisonKeyPair(); err != nil {
				w.Violate("C15", "poison-key-generation", "pair", err.Error())
				return
			}
			rec, err := poison.CreatePoisonRecord(poisonKS{pw.KS}, 20+i)
			if err != nil {
				w.Violate("C15", "poison-record-creation", "acrastruct", err.Error())
				return
			}
			pairRecs = append(pairRecs, rec)
		}
		for i := 0; i <= int(plan.Sw("rot_sym")); i++ {
			time.Sleep(time.Second)
			if err := mk.GeneratePoisonSymmetricKey(); err != nil {
				w.Violate("C15", "poison-key-generation", "sym", err.Error())
				return
			}
			rec, err := poison.CreateSymmetricPoisonRecord(poisonKS{pw.KS}, 20+i)
			if err != nil {
				w.Violate("C15", "poison-record-creation", "acrablock", err.Error())
				return
			}
			symRecs = append(symRecs, rec)
		}
		pw.KS.Reset()
		ownerKey, _ := pw.KS.KS.GetClientIDSymmetricKey([]byte(owner))
		clientBlock, _ := acrablock.CreateAcraBlock([]byte("ordinary protected value"), ownerKey, nil)
		clientEnv, _ := crypto.SerializeEncryptedData(clientBlock, crypto.AcraBlockEnvelopeID)
		type planted struct {
			table  string
			id     int
			poison bool
			desc   string
		}
		var cells []planted
		var payloads [][]byte
		for i, op := range plan.Ops {
			var payload []byte
			isPoison := false
			desc := ""
			age := int(op.Arg(1, 0))
			switch op.Arg(0, 0) {
			case 0:
				payload, isPoison, desc = pairRecs[age%len(pairRecs)], true, fmt.Sprintf("acrastruct/key-age-%d-of-%d", age%len(pairRecs), len(pairRecs))
			case 1:
				payload, isPoison, desc = symRecs[age%len(symRecs)], true, fmt.Sprintf("acrablock/key-age-%d-of-%d", age%len(symRecs), len(symRecs))
			case 2:
				payload, desc = rng.Bytes(60), "random"
			case 3:
				payload, desc = clientEnv, "client-envelope"
			case 4:
				rec := symRecs[len(symRecs)-1]
				payload, desc = rec[:len(rec)-1-int(op.Arg(4, 0))%20], "truncated-poison"
			default:
				rec := append([]byte{}, pairRecs[len(pairRecs)-1]...)
				rec[20+int(op.Arg(4, 0))%(len(rec)-20)] ^= 0x10
				payload, desc = rec, "bitflipped-poison"
			}
			if op.Arg(2, 0) == 1 {
				pre := rng.Bytes(int(op.Arg(4, 0)) % 30)
				if op.Arg(4, 0)%3 == 0 {
					// bytes that look like the beginning of an envelope tag right before the record
					pre = append(pre, []byte("%%%%%")[:1+int(op.Arg(4, 0)/3)%5]...)
				}
				suffix := rng.Bytes(7)
				if op.Arg(0, 0) == 4 {
					// the bytes after a truncated record must not complete it by chance
					rec := symRecs[len(symRecs)-1]
					suffix[0] = rec[len(payload)] ^ 0xff
				}
				payload = append(append(append([]byte{}, pre...), payload...), suffix...)
				desc += "/embedded"
			} else {
				desc += "/alone"
			}
			id := i + 1
			payloads = append(payloads, append([]byte{}, payload...))
			mark := []byte(fmt.Sprintf("ROW%03dMARK", id))
			if op.Arg(3, 0) == 0 {
				t1.Rows = append(t1.Rows, [][]byte{[]byte(fmt.Sprint(id)), mark, payload})
				cells = append(cells, planted{"t1", id, isPoison, desc + "/protected-column"})
			} else {
				t3.Rows = append(t3.Rows, [][]byte{[]byte(fmt.Sprint(id)), mark, payload})
				cells = append(cells, planted{"t3", id, isPoison, desc + "/unprotected-column"})
			}
		}
		// each cell is read by its own statement so that callbacks can be attributed;
		// plus one multi-row read of everything
		for _, c := range cells {
			before := len(cb.calls)
			col := map[string]string{"t1": "c1", "t3": "raw"}[c.table]
			st := Stmt{SQL: fmt.Sprintf("SELECT id, plain, %s FROM %s WHERE id = %d", col, c.table, c.id)}
			if plan.Sw("binary") == 1 {
				st.Extended, st.ResultFormats = true, []int16{1}
				if mysql {
					st = Stmt{SQL: fmt.Sprintf("SELECT id, plain, %s FROM %s WHERE id = ?", col, c.table), Extended: true, Args: []interface{}{int64(c.id)}}
				}
			}
			run := pw.RunSession(owner, []Stmt{st})
			if w.Res.Cut {
				return
			}
			for _, p := range pw.Panics {
				w.Violate("C14", "no-panic", "pg/proxy", p)
			}
			pw.Panics = nil
			calls := cb.calls[before:]
			site := dbms + "/" + c.desc
			if c.poison {
				if len(calls) == 0 {
					w.Violate("C15", "poison-record-raises-alarm", site, fmt.Sprintf("a poison record (%s) was read and no callback ran", c.desc))
					continue
				}
				// ordering: the callback ran before the row reached the client connection
				mark := []byte(fmt.Sprintf("ROW%03dMARK", c.id))
				log := run.ToClient.Log
				pos := bytes.Index(log, mark)
				if pos >= 0 && calls[0] > pos {
					w.Violate("C15", "alarm-before-delivery", site, fmt.Sprintf("the row was written to the client at byte %d, the callback ran when %d bytes had been written", pos, calls[0]))
				}
				w.Probe("poison-detected")
			} else if len(calls) > 0 {
				w.Violate("C15", "ordinary-data-raises-no-alarm", site, fmt.Sprintf("%d callback(s) for a cell that holds no poison record (%s)", len(calls), c.desc))
			}
		}
		// the same payloads handed to AcraTranslator's decrypt operations (service object, same keystore and callbacks)
		svc, err := translator.NewTranslatorService(&translator.TranslatorData{Keystorage: pw.KS.KS, PoisonRecordCallbacks: pw.Poison})
		if err != nil {
			w.Violate("C15", "world-builds", "translator", err.Error())
			return
		}
		ctx := context.Background()
		var someHash []byte
		if resp, err := svc.EncryptSymSearchable(ctx, []byte("some value"), []byte(owner), nil); err == nil {
			someHash = resp.Hash
		}
		for i, c := range cells {
			payload := payloads[i]
			ops := []struct {
				name string
				call func() ([]byte, error)
			}{
				{"Decrypt", func() ([]byte, error) { return svc.Decrypt(ctx, payload, []byte(owner), nil) }},
				{"DecryptSym", func() ([]byte, error) { return svc.DecryptSym(ctx, payload, []byte(owner), nil) }},
			}
			if someHash != nil {
				ops = append(ops,
					struct {
						name string
						call func() ([]byte, error)
					}{"DecryptSearchable", func() ([]byte, error) {
						return svc.DecryptSearchable(ctx, payload, append([]byte{}, someHash...), []byte(owner), nil)
					}},
					struct {
						name string
						call func() ([]byte, error)
					}{"DecryptSymSearchable", func() ([]byte, error) {
						return svc.DecryptSymSearchable(ctx, payload, append([]byte{}, someHash...), []byte(owner), nil)
					}})
			}
			for _, op := range ops {
				before := len(cb.calls)
				out, err := op.call()
				n := len(cb.calls) - before
				site := "translator/" + op.name + "/" + strings.TrimSuffix(strings.TrimSuffix(c.desc, "/protected-column"), "/unprotected-column")
				embedded := strings.Contains(c.desc, "/embedded")
				if embedded && strings.Contains(op.name, "Searchable") {
					continue // hash + arbitrary bytes + record: what these operations do with it is not stated
				}
				if c.poison {
					if n == 0 {
						w.Violate("C15", "poison-record-raises-alarm", site, fmt.Sprintf("a poison record was passed to %s and no callback ran (err=%v, %d bytes returned)", op.name, err, len(out)))
					} else {
						w.Probe("translator-poison-detected")
					}
				} else if !c.poison && n > 0 {
					w.Violate("C15", "ordinary-data-raises-no-alarm", site, fmt.Sprintf("%d callback(s) from %s for input that holds no poison record", n, op.name))
				}
			}
		}
		w.State(fmt.Sprintf("cells=%d pairkeys=%d symkeys=%d", len(cells), len(pairRecs), len(symRecs)))
		w.Res.SimNanos = int64(time.Since(start))
	})
	return w.Finish()
}

// poisonKS adapts a keystore handle to PoisonKeyStorageAndGenerator.
type poisonKS struct{ h *ksw.Handle }

func (p poisonKS) GetPoisonKeyPair() (*keys.Keypair, error) { return p.h.KS.GetPoisonKeyPair() }
func (p poisonKS) GetPoisonPrivateKeys() ([]*keys.PrivateKey, error) {
	return p.h.KS.GetPoisonPrivateKeys()
}
func (p poisonKS) GetPoisonSymmetricKeys() ([][]byte, error) { return p.h.KS.GetPoisonSymmetricKeys() }
func (p poisonKS) GetPoisonSymmetricKey() ([]byte, error)    { return p.h.KS.GetPoisonSymmetricKey() }
func (p poisonKS) GeneratePoisonSymmetricKey() error         { return p.h.Mk.GeneratePoisonSymmetricKey() }
func (p poisonKS) GeneratePoisonKeyPair() error              { return p.h.Mk.GeneratePoisonKeyPair() }
