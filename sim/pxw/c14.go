package pxw

import (
	"fmt"
	"runtime"
	"testing"
	"time"

	"verif/sim/kernel"
)

// C14 — no input can crash a handler or make it consume unbounded resources.
//
// Fault model: a hostile or broken peer. Otherwise valid sessions (writes and
// reads of protected columns, simple and extended protocol) run through the
// real proxy while the network corrupts bytes in flight on the client->proxy
// and the database->proxy streams (offsets biased to message headers and
// length fields) and cuts connections in the middle of messages; stored cells
// are damaged envelopes. Oracle: no panic in any proxy goroutine (the harness
// installs the recover, so AcraServer's own recoverConnection cannot hide it)
// and the session ends within the step budget.
type C14 struct{}

func (C14) ID() string { return "C14" }

// c14AllocLimit: more than this for one short session is an allocation the peer talked the proxy into.
const c14AllocLimit = 256 << 20

var c14Streams = []string{"client->proxy-c", "db->proxy-d"}

func (C14) Explore(x *kernel.Explorer, seed uint64) {
	r := kernel.NewRNG(seed, 0xc14)
	for i := 0; i < 4 && !x.Expired(); i++ {
		plan := &kernel.Plan{Prop: "C14", Seed: kernel.Mix(seed, uint64(i)), Swarm: map[string]int64{
			"chunk": 0, "colseed": int64(r.Uint32()), "cells": int64(r.Intn(2)), "mysql": int64(r.Intn(3) / 2), "depeof": int64(r.Intn(2)), "rawmy": int64(r.Intn(2)), "reexec": int64(r.Intn(2)), "wyield": int64(r.Intn(2))}}
		n := 2 + r.Intn(6)
		for j := 0; j < n; j++ {
			plan.Ops = append(plan.Ops, kernel.Op{ID: j + 1, Kind: r.Pick("insert", "select", "select-x", "insert-x", "update", "wide", "wide-x"), A: []int64{int64(r.Intn(50))}})
		}
		nf := 1 + r.Intn(3)
		for k := 0; k < nf; k++ {
			// Damage of one message in flight: bit flips inside its payload (type bytes and inner
			// length fields included), a length field below 4, a length field that declares up to
			// 4 GiB, the message cut short, a 4-byte field set to all ones, a foreign well-framed
			// message in front of it. (Before the allocation fixes in /repo the proxy allocated
			// whatever a length field declared, 2-4 GiB per connection.)
			f := kernel.Fault{Site: c14Streams[r.Intn(2)], Nth: 2 + r.Intn(2*n+4), Kind: "corrupt-payload"}
			f.Arg = int64(r.Intn(4000))<<8 | int64(1<<uint(r.Intn(8)))
			if r.Chance(1, 8) {
				f.Kind = "tiny-length"
			} else if r.Chance(1, 6) {
				f.Kind = "inject"
			} else if r.Chance(1, 6) {
				// a message cut to a drawn length (0..47 bytes) with a matching length field
				f.Kind = "truncate-message"
				f.Arg |= int64(min(r.Intn(48), r.Intn(24))) << 20 // short cuts more often: headers end early
			} else if r.Chance(1, 10) {
				f.Kind = "giant-length"
			} else if r.Chance(1, 8) {
				f.Kind = "ones-field"
			} else if r.Chance(1, 8) {
				f.Kind = "cut"
			}
			plan.Faults = append(plan.Faults, f)
		}
		if r.Chance(1, 10) {
			// the very first client message (startup / handshake response) with a damaged length
			plan.Faults = append(plan.Faults, kernel.Fault{Site: c14Streams[0], Nth: 1, Kind: "tiny-length", Arg: int64(r.Intn(1000))})
		}
		x.Exec(plan)
	}
}

func (C14) Run(t *testing.T, plan *kernel.Plan, keepLog bool) *kernel.Result {
	if plan.Sw("mysql") == 1 {
		return c14MySQL(t, plan, keepLog)
	}
	w := kernel.NewWorld(plan, keepLog)
	Bubble(t, plan.Seed, func() {
		start := time.Now()
		rng := kernel.NewRNG(plan.Seed, 0xd14c)
		cols := drawCols(kernel.NewRNG(uint64(plan.Sw("colseed")), 4), "")
		pw, names, err := colWorld(w, plan, rng, cols)
		if err != nil {
			w.Violate("C14", "world-builds", "pg", err.Error())
			return
		}
		pw.maxSteps = 12000
		c14WideTables(pw)
		var script []Stmt
		rows := 0
		for _, op := range plan.Ops {
			switch op.Kind {
			case "wide", "wide-x":
				st := Stmt{SQL: fmt.Sprintf("SELECT * FROM w%d", []int{7, 8, 15, 16}[int(op.Arg(0, 0))%4])}
				if op.Kind == "wide-x" {
					st.Extended, st.Describe, st.ResultFormats = true, true, []int16{1}
				}
				script = append(script, st)
			case "insert", "insert-x":
				rows++
				var vals []string
				for _, c := range cols {
					vals = append(vals, marker(c, rows, 1))
				}
				script = append(script, insertStmt(names, rows, vals, cols, op.Kind == "insert-x"))
			case "update":
				if rows > 0 {
					script = append(script, Stmt{SQL: fmt.Sprintf("UPDATE t1 SET %s = %s WHERE id = %d", cols[0].Name, literalFor(cols[0], marker(cols[0], 1, 2), 0), 1)})
				}
			default:
				st := Stmt{SQL: fmt.Sprintf("SELECT * FROM t1 WHERE id = %d", 1+int(op.Arg(0, 0))%max(1, rows))}
				if op.Kind == "select-x" {
					st.Extended, st.Describe, st.ResultFormats = true, true, []int16{1}
				}
				script = append(script, st)
			}
		}
		if plan.Sw("cells") == 1 {
			// stored cells are damaged envelopes (storage fault)
			pw.DB.Corrupt = c14CorruptCells()
		}
		var m0, m1 runtime.MemStats
		runtime.ReadMemStats(&m0)
		run := pw.RunSession(owner, script)
		runtime.ReadMemStats(&m1)
		if grown := m1.TotalAlloc - m0.TotalAlloc; grown > c14AllocLimit {
			w.Violate("C14", "allocation-bounded", "pg/session", fmt.Sprintf("a session that exchanged %d bytes made the process allocate %d MiB", len(run.ToDB.Log)+len(run.FromDB.Log)+len(run.ToClient.Log)+len(run.FromCl.Log), grown>>20))
		}
		for i, p := range pw.Panics {
			stack := ""
			if i < len(pw.Stacks) {
				stack = pw.Stacks[i]
			}
			w.Violate("C14", "no-panic", "pg/"+panicSite(stack), fmt.Sprintf("%s\n%.1500s", p, stack))
		}
		total := len(run.ToDB.Log) + len(run.FromDB.Log) + len(run.ToClient.Log) + len(run.FromCl.Log)
		if w.Res.Cut || run.Steps > 2*total+200 {
			w.Res.Cut = false // a session that does not end is what is looked for here
			w.Violate("C14", "session-terminates", "pg", fmt.Sprintf("session still exchanging bytes after %d deliveries (%d bytes on all streams)", run.Steps, total))
		}
		var texts []string
		for _, st := range script {
			texts = append(texts, st.SQL)
		}
		if rng.Intn(3) == 0 {
			c14Decoders(w, rng, false, schemaYAML(cols), "version: 0.85.0\nhandlers:\n  - handler: deny\n    tables:\n      - t9\n    patterns:\n      - SELECT %%COLUMN%% FROM t1 %%WHERE%%\n  - handler: allowall\n", texts)
		}
		w.State(fmt.Sprintf("faults=%d", len(plan.Faults)))
		w.Res.SimNanos = int64(time.Since(start))
	})
	return w.Finish()
}

// panicSite extracts the innermost Acra function of a panic stack for the site signature.
func panicSite(stack string) string {
	lines := splitLines(stack)
	for _, l := range lines {
		if i := indexOf(l, "github.com/cossacklabs/acra/"); i >= 0 && indexOf(l, "pxw.") < 0 {
			fn := l[i+len("github.com/cossacklabs/acra/"):]
			if j := indexOf(fn, "("); j > 0 && indexOf(fn, ")") > j && indexOf(fn, "(*") == j {
				// keep receiver form "(*T).method"
				if k := indexOf(fn[j+1:], "("); k >= 0 {
					fn = fn[:j+1+k]
				}
			} else if j > 0 {
				fn = fn[:j]
			}
			return fn
		}
	}
	return "unknown"
}

func splitLines(s string) []string {
	var out []string
	cur := ""
	for _, c := range s {
		if c == '\n' {
			out = append(out, cur)
			cur = ""
		} else {
			cur += string(c)
		}
	}
	return append(out, cur)
}

func indexOf(s, sub string) int {
	for i := 0; i+len(sub) <= len(s); i++ {
		if s[i:i+len(sub)] == sub {
			return i
		}
	}
	return -1
}
