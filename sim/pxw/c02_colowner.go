package pxw

import (
	"bytes"
	"fmt"

	"verif/sim/kernel"
)

// c02ColumnOwner: columns configured with a client_id of their own (the owner's), written by the owner and then
// read by another client on its own connection - before and after that client has searched by the value of such
// a column. The identity of a connection decides what it may reveal; a column's client_id must not rub off on it.
func c02ColumnOwner(w *kernel.World, plan *kernel.Plan, rng *kernel.RNG) {
	cols := []colKind{
		{Name: "c1", Envelope: []string{"acrablock", "acrastruct"}[rng.Intn(2)], ClientID: owner},
		{Name: "c2", Token: []string{"str", "email"}[rng.Intn(2)], ClientID: owner},
		{Name: "c3", Envelope: "acrablock", Search: true, ClientID: owner},
	}
	mysql := plan.Sw("mysql") == 1
	var pw *PgWorld
	var names []string
	var err error
	if mysql {
		pw, names, err = myColWorld(w, plan, rng, cols)
	} else {
		pw, names, err = colWorld(w, plan, rng, cols)
	}
	if err != nil {
		w.Violate("C02", "world-builds", "column-owner", err.Error())
		return
	}
	dbms := "pg"
	if mysql {
		dbms = "mysql"
	}
	secret := "COLOWNER-SECRET-OF-A-0123456789"
	token := "colowner.secret@example.com"
	searched := "COLOWNER-SEARCHED-OF-A-987654321"
	if cols[1].Token == "str" {
		token = "COLOWNER-TOKEN-PLAINTEXT-OF-A-55"
	}
	vals := []string{secret, token, searched}
	var ins Stmt
	if mysql {
		ins = myInsertStmt(names, 1, "p", vals, cols, false, 0)
	} else {
		ins = insertStmt(names, 1, vals, cols, false)
	}
	run := pw.RunSession(owner, []Stmt{ins, {SQL: "SELECT id, plain, c1, c2, c3 FROM t1 WHERE id = 1"}})
	if w.Res.Cut {
		return
	}
	site := dbms + "/column-owner"
	if run.Stuck || run.ClientErr != "" || len(run.Results) != 2 || len(run.Results[1].Rows) != 1 {
		w.Violate("C02", "protect-succeeds", site, fmt.Sprintf("%q %v", run.ClientErr, run.ProxyErrs))
		return
	}
	if got := run.Results[1].Rows[0]; len(got) == 5 {
		for k, want := range vals {
			cell := got[2+k]
			if !mysql {
				cell = decodeClientCell(17, 0, cell)
			}
			if string(cell) != want && string(got[2+k]) != want {
				w.Violate("C02", "owner-reveals-own-column", site, fmt.Sprintf("column %s configured for the owner: the owner wrote %q and reads %.60q", cols[k].Name, want, got[2+k]))
			}
		}
	}
	// the other client reads, searches by the owner's columns (literal and parameter), reads again
	read := Stmt{SQL: "SELECT id, plain, c1, c2, c3 FROM t1 WHERE id = 1"}
	script := []Stmt{read,
		{SQL: "SELECT id FROM t1 WHERE c2 = " + sqlQuote(token)},
		{SQL: "SELECT id FROM t1 WHERE c3 = " + sqlQuote(searched)},
	}
	if mysql {
		script = append(script, Stmt{SQL: "SELECT id FROM t1 WHERE plain = ? AND c2 = ?", Extended: true, Args: []interface{}{"p", token}})
	} else {
		script = append(script, Stmt{SQL: "SELECT id FROM t1 WHERE plain = $1 AND c2 = $2", Extended: true, Params: [][]byte{[]byte("p"), []byte(token)}})
	}
	script = append(script, read, Stmt{SQL: "SELECT id, plain, c1, c2, c3 FROM t1 WHERE id = 1", Extended: !mysql, ResultFormats: map[bool][]int16{true: nil, false: {1}}[mysql]})
	reader := []string{stranger, nokeys}[rng.Intn(2)]
	r2 := pw.RunSession(reader, script)
	if w.Res.Cut {
		return
	}
	for _, p := range pw.Panics {
		w.Violate("C14", "no-panic", dbms+"/proxy", p)
	}
	for _, m := range []string{secret, token, searched} {
		if bytes.Contains(r2.ToClient.Log, []byte(m)) {
			w.Violate("C02", "other-identity-never-gets-plaintext", site, fmt.Sprintf("a connection of %s received %q, protected for the column's owner (client error %q)", reader, m, r2.ClientErr))
			break
		}
	}
	// the other client writes into the owner's columns: the values are protected for the owner, who reads them;
	// the writer does not get them back in clear
	vals2 := []string{"COLOWNER-WRITTEN-BY-B-c1-24680", "written.by.b@example.net", "COLOWNER-WRITTEN-BY-B-c3-13579"}
	if cols[1].Token == "str" {
		vals2[1] = "COLOWNER-WRITTEN-BY-B-c2-97531"
	}
	var ins2 Stmt
	if mysql {
		ins2 = myInsertStmt(names, 2, "p", vals2, cols, false, 0)
	} else {
		ins2 = insertStmt(names, 2, vals2, cols, false)
	}
	read2 := Stmt{SQL: "SELECT id, plain, c1, c2, c3 FROM t1 WHERE id = 2"}
	r3 := pw.RunSession(reader, []Stmt{ins2, read2})
	if w.Res.Cut {
		return
	}
	if reader == stranger && r3.ClientErr == "" && len(r3.Results) == 2 && r3.Results[0].Err == "" {
		for _, m := range vals2 {
			if bytes.Contains(r3.ToDB.Log, []byte(m)) {
				w.Violate("C02", "written-for-the-column-owner-is-protected", site, fmt.Sprintf("%q, written by %s into a column of %s, reached the database in clear", m, reader, owner))
				break
			}
			if len(r3.Results[1].Rows) == 1 && bytes.Contains(bytes.Join(r3.Results[1].Rows[0], nil), []byte(m)) {
				w.Violate("C02", "other-identity-never-gets-plaintext", site+"/own-write", fmt.Sprintf("%s reads back %q in clear from a column protected for %s", reader, m, owner))
				break
			}
		}
		r4 := pw.RunSession(owner, []Stmt{read2})
		if w.Res.Cut {
			return
		}
		if r4.ClientErr == "" && len(r4.Results) == 1 && len(r4.Results[0].Rows) == 1 && len(r4.Results[0].Rows[0]) == 5 {
			for k, want := range vals2 {
				cell := r4.Results[0].Rows[0][2+k]
				if !mysql {
					cell = decodeClientCell(17, 0, cell)
				}
				if string(cell) != want && string(r4.Results[0].Rows[0][2+k]) != want {
					w.Violate("C02", "owner-reveals-own-column", site+"/written-by-another", fmt.Sprintf("column %s configured for the owner: %s wrote %q, the owner reads %.60q", cols[k].Name, reader, want, r4.Results[0].Rows[0][2+k]))
				}
			}
		}
	}
	w.Probe("column-owner")
}
