package pxw

import (
	"fmt"
	"strings"

	acracensor "github.com/cossacklabs/acra/acra-censor"
	"github.com/cossacklabs/acra/encryptor/base/config"
	"github.com/cossacklabs/acra/hmac"
	"github.com/cossacklabs/acra/sqlparser"
	myDialect "github.com/cossacklabs/acra/sqlparser/dialect/mysql"
	pgDialect "github.com/cossacklabs/acra/sqlparser/dialect/postgresql"
	"github.com/cossacklabs/acra/utils"

	"verif/sim/kernel"
)

// C14, decoders that read what was stored or typed rather than what travels: the encryptor and
// firewall configuration (files read back from storage), SQL text (both dialects: parser, redaction,
// firewall), bytea codecs and the hash extractor. Each is fed seeded damage of valid input - cut
// short, a byte flipped, a piece doubled or dropped, quotes and escapes inserted - after the session
// of the run; the only requirement is that nothing panics.

func c14Mutate(r *kernel.RNG, in string) string {
	b := []byte(in)
	if len(b) == 0 {
		return in
	}
	switch r.Intn(7) {
	case 0:
		return string(b[:r.Intn(len(b))])
	case 1:
		b[r.Intn(len(b))] ^= 1 << uint(r.Intn(8))
		return string(b)
	case 2:
		i, j := r.Intn(len(b)), r.Intn(len(b))
		if i > j {
			i, j = j, i
		}
		return string(b[:j]) + string(b[i:j]) + string(b[j:])
	case 3:
		i, j := r.Intn(len(b)), r.Intn(len(b))
		if i > j {
			i, j = j, i
		}
		return string(b[:i]) + string(b[j:])
	case 4:
		i := r.Intn(len(b))
		return string(b[:i]) + r.Pick("'", "\"", "\\", "`", "$1", "?", "/*", "*/", "--", ";", "\x00", "E'", "X'", "0x", "%%", "((", "))") + string(b[i:])
	case 5:
		return strings.Repeat(in, 2+r.Intn(3))
	}
	i := r.Intn(len(b))
	return string(b[:i]) + strings.Repeat(string(b[i]), 1+r.Intn(300)) + string(b[i:])
}

func c14Decoders(w *kernel.World, r *kernel.RNG, mysql bool, schemaYAML, censorYAML string, statements []string) {
	c14Tokens(w, r, map[bool]string{true: "mysql", false: "pg"}[mysql])
	guard := func(site, input string, f func()) {
		defer func() {
			if x := recover(); x != nil {
				w.Violate("C14", "no-panic", "decoder/"+site, fmt.Sprintf("%v on input %.200q", x, input))
			}
		}()
		f()
	}
	for k := 0; k < 6; k++ {
		y := c14Mutate(r, schemaYAML)
		guard("encryptor-config", y, func() { _, _ = config.MapTableSchemaStoreFromConfig([]byte(y), mysql) })
		c := c14Mutate(r, censorYAML)
		guard("censor-config", c, func() {
			censor := acracensor.NewAcraCensor()
			defer censor.ReleaseAll()
			_ = censor.LoadConfiguration([]byte(c))
		})
	}
	censor := acracensor.NewAcraCensor()
	defer censor.ReleaseAll()
	_ = censor.LoadConfiguration([]byte(censorYAML))
	for _, dialect := range []string{"pg", "mysql"} {
		if dialect == "mysql" {
			sqlparser.SetDefaultDialect(myDialect.NewMySQLDialect())
		} else {
			sqlparser.SetDefaultDialect(pgDialect.NewPostgreSQLDialect())
		}
		for _, st := range statements {
			for k := 0; k < 3; k++ {
				q := c14Mutate(r, st)
				guard("sql/"+dialect+"/parse", q, func() { _, _ = sqlparser.New(sqlparser.ModeStrict).Parse(q) })
				guard("sql/"+dialect+"/handle-raw", q, func() { _, _, _, _ = sqlparser.New(sqlparser.ModeDefault).HandleRawSQLQuery(q) })
				guard("sql/"+dialect+"/redact", q, func() { _, _ = sqlparser.RedactSQLQuery(q) })
				guard("sql/"+dialect+"/censor", q, func() { _ = censor.HandleQuery(q) })
			}
		}
	}
	// restore the dialect of the run
	if mysql {
		sqlparser.SetDefaultDialect(myDialect.NewMySQLDialect())
	} else {
		sqlparser.SetDefaultDialect(pgDialect.NewPostgreSQLDialect())
	}
	for k := 0; k < 12; k++ {
		in := c14Mutate(r, r.Pick("\\x25252500", "\\045\\045\\045abc\\\\", "plain text", "\\x", "\\", "\\1", "\\12", "\\400", "\x7f0123456789abcdef0123456789abcdef"))
		guard("bytea/decode-escaped", in, func() { _, _ = utils.DecodeEscaped([]byte(in)) })
		guard("bytea/decode-octal", in, func() { _, _ = utils.DecodeOctal([]byte(in)) })
		guard("hash/extract", in, func() { _ = hmac.ExtractHash([]byte(in)) })
		guard("hash/extract-and-data", in, func() { _, _ = hmac.ExtractHashAndData([]byte(in)) })
	}
	w.Probe("decoders")
}
