package pxw

import (
	"fmt"
	"os"
	"testing"

	"github.com/cossacklabs/acra/logging"
	log "github.com/sirupsen/logrus"

	"verif/sim/kernel"
)

func TestDebugDirect(t *testing.T) {
	if os.Getenv("VERIF_DEBUG_DIRECT") == "" {
		t.Skip()
	}
	plan := &kernel.Plan{Seed: 7, Swarm: map[string]int64{"rawmy": 1}}
	w := kernel.NewWorld(plan, false)
	w.MaxSteps = 1 << 40
	Bubble(t, 7, func() {
		logging.SetLogLevel(logging.LogDebug)
		log.SetOutput(os.Stdout)
		rng := kernel.NewRNG(7, 1)
		cols := []colKind{{Name: "c1", Envelope: "acrablock"}}
		censor := "version: 0.85.0\nignore_parse_error: false\nhandlers:\n  - handler: deny\n    tables:\n      - t3\n"
		pw, err := NewPgWorld(w, rng, PgWorldConfig{SchemaYAML: schemaYAML(cols), CensorYAML: censor, Clients: []string{owner}, MySQL: true, MyDeprecateEOF: os.Getenv("VERIF_DEBUG_DIRECT") == "2"})
		if err != nil {
			t.Fatal(err)
		}
		t2 := pw.DB.AddTable("t2", Col{"id", TInt4}, Col{"note", TText})
		pw.DB.AddTable("t3", Col{"id", TInt4}, Col{"note", TText})
		pw.DB.AddTable("t1", Col{"id", TInt4}, Col{"plain", TText}, Col{"c1", TBytea})
		t2.Rows = [][][]byte{{[]byte("5"), []byte("note-5")}}
		script := []Stmt{
			{SQL: "SELECT id, note FROM t2 WHERE id = ?", Extended: true, Args: []interface{}{int64(5)}, PrepareOnly: true},
			{SQL: "SELECT t1.id FROM t1 JOIN t3 ON t1.id = t3.id WHERE t1.id = ? AND t3.id = ?", Extended: true, Args: []interface{}{int64(1), int64(2)}, PrepareOnly: true},
			{Direct: true, Extended: true, Args: []interface{}{int64(5)}},
		}
		run := pw.RunSession(owner, script)
		fmt.Printf("steps=%d stuck=%v clientErr=%q proxyErrs=%v panics=%v\n", run.Steps, run.Stuck, run.ClientErr, run.ProxyErrs, pw.Panics)
		for i, r := range run.Results {
			fmt.Printf("  res %d: err=%q ready=%v rows=%q\n", i, r.Err, r.Ready, r.Rows)
		}
	})
}
