package pxw

import (
	"encoding/binary"
	"fmt"
	"io"
	"math"
	"net"
	"strconv"
	"strings"

	"github.com/jackc/pgx/v5/pgproto3"
)

// A second MySQL client, written for the simulation (swarm knob `rawmy`): it
// speaks the protocol the way the C client library and the connectors built on
// it do where go-sql-driver differs:
//   - it sets CLIENT_DEPRECATE_EOF when the server offers it (go-sql-driver never
//     does), so result sets arrive without the intermediate EOF packets and end
//     with an OK packet that carries the EOF header;
//   - with `reexec` a prepared SELECT is executed a second time with the
//     "new parameters bound" flag cleared, i.e. without repeating the parameter
//     types, as libmysqlclient does for every execution after the first; the
//     answer of that second execution is the statement's result.
//
// It checks packet sequence numbers strictly, like the drivers do.

type myRawOpts struct {
	deprecateEOF bool
	reexec       bool
	// longData: string and byte parameters of 8 bytes and more travel in COM_STMT_SEND_LONG_DATA packets
	// (in two pieces) before the execution, as mysql_stmt_send_long_data() and the drivers' handling of
	// large values do; the execute packet then carries the parameter's type but no value for it
	longData bool
}

type myRawConn struct {
	rw  io.ReadWriter
	seq byte
}

func (c *myRawConn) readPacket() ([]byte, error) {
	var payload []byte
	for {
		var hdr [4]byte
		if _, err := io.ReadFull(c.rw, hdr[:]); err != nil {
			return nil, err
		}
		n := int(hdr[0]) | int(hdr[1])<<8 | int(hdr[2])<<16
		if hdr[3] != c.seq {
			return nil, fmt.Errorf("commands out of sync: packet with sequence number %d, expected %d", hdr[3], c.seq)
		}
		c.seq++
		buf := make([]byte, n)
		if _, err := io.ReadFull(c.rw, buf); err != nil {
			return nil, err
		}
		payload = append(payload, buf...)
		if n < 0xffffff {
			return payload, nil
		}
	}
}

func (c *myRawConn) writePacket(payload []byte) error {
	for {
		n := len(payload)
		if n > 0xffffff {
			n = 0xffffff
		}
		hdr := []byte{byte(n), byte(n >> 8), byte(n >> 16), c.seq}
		c.seq++
		if _, err := c.rw.Write(append(hdr, payload[:n]...)); err != nil {
			return err
		}
		payload = payload[n:]
		if n < 0xffffff {
			return nil
		}
	}
}

func (c *myRawConn) command(cmd byte, body []byte) error {
	c.seq = 0
	return c.writePacket(append([]byte{cmd}, body...))
}

type myRawColumn struct {
	name    string
	typ     byte
	charset uint16
	flags   uint16
}

func parseMyColumn(p []byte) (myRawColumn, error) {
	var col myRawColumn
	for i := 0; i < 6; i++ { // catalog, schema, table, org_table, name, org_name
		l, k, err := readLenencInt(p)
		if err != nil || uint64(len(p)-k) < l {
			return col, fmt.Errorf("column definition is malformed")
		}
		if i == 4 {
			col.name = string(p[k : k+int(l)])
		}
		p = p[k+int(l):]
	}
	if len(p) < 13 || p[0] != 0x0c {
		return col, fmt.Errorf("column definition is malformed (fixed part)")
	}
	col.charset = binary.LittleEndian.Uint16(p[1:])
	col.typ = p[7]
	col.flags = binary.LittleEndian.Uint16(p[8:])
	return col, nil
}

// typeName follows the names database/sql reports through go-sql-driver (the checks compare them).
func (c myRawColumn) typeName() string {
	bin := c.charset == 63
	pick := func(b, t string) string {
		if bin {
			return b
		}
		return t
	}
	switch c.typ {
	case myTypeTiny:
		return "TINYINT"
	case myTypeShort:
		return "SMALLINT"
	case myTypeLong:
		return "INT"
	case myTypeLongLong:
		return "BIGINT"
	case myTypeFloat:
		return "FLOAT"
	case myTypeDouble:
		return "DOUBLE"
	case myTypeNull:
		return "NULL"
	case myTypeVarchar:
		return "VARCHAR"
	case myTypeVarStr:
		return pick("VARBINARY", "VARCHAR")
	case myTypeString:
		return pick("BINARY", "CHAR")
	case myTypeBlob:
		return pick("BLOB", "TEXT")
	case myTypeTinyBlob:
		return pick("TINYBLOB", "TINYTEXT")
	case myTypeMedBlob:
		return pick("MEDIUMBLOB", "MEDIUMTEXT")
	case myTypeLongBlob:
		return pick("LONGBLOB", "LONGTEXT")
	}
	return fmt.Sprintf("TYPE-0x%02x", c.typ)
}

func myErrPacket(p []byte, res *StmtResult) {
	code := 0
	msg := ""
	if len(p) >= 3 {
		code = int(binary.LittleEndian.Uint16(p[1:]))
		msg = string(p[3:])
		if strings.HasPrefix(msg, "#") && len(msg) >= 6 {
			msg = msg[6:]
		}
	}
	res.Err, res.ErrCode = msg, strconv.Itoa(code)
}

// isTerminator tells whether a packet inside a result set ends it.
func (o myRawOpts) isTerminator(p []byte) bool {
	if len(p) == 0 || p[0] != 0xfe {
		return false
	}
	if o.deprecateEOF {
		return len(p) < 0xffffff
	}
	return len(p) < 9
}

// readDefs reads n column definitions and, in the classic protocol, the EOF packet after them.
func (c *myRawConn) readDefs(n int, o myRawOpts) ([]myRawColumn, error) {
	cols := make([]myRawColumn, 0, n)
	for i := 0; i < n; i++ {
		p, err := c.readPacket()
		if err != nil {
			return nil, err
		}
		if len(p) > 0 && p[0] == 0xff {
			return nil, fmt.Errorf("error packet in place of column definition %d", i)
		}
		col, err := parseMyColumn(p)
		if err != nil {
			return nil, fmt.Errorf("column definition %d: %w", i, err)
		}
		cols = append(cols, col)
	}
	if n > 0 && !o.deprecateEOF {
		p, err := c.readPacket()
		if err != nil {
			return nil, err
		}
		if len(p) == 0 || p[0] != 0xfe || len(p) >= 9 {
			return nil, fmt.Errorf("expected EOF after %d column definitions, got %.20q", n, p)
		}
	}
	return cols, nil
}

// readResult reads the answer to COM_QUERY / COM_STMT_EXECUTE.
func (c *myRawConn) readResult(res *StmtResult, binaryRows bool, o myRawOpts) error {
	*res = StmtResult{}
	p, err := c.readPacket()
	if err != nil {
		return err
	}
	if len(p) == 0 {
		return fmt.Errorf("empty packet in place of a response")
	}
	switch p[0] {
	case 0xff:
		myErrPacket(p, res)
		res.Ready = true
		return nil
	case 0x00:
		res.Ready = true
		return nil
	case 0xfb:
		return fmt.Errorf("LOCAL INFILE request")
	}
	n, k, err := readLenencInt(p)
	if err != nil || k != len(p) {
		return fmt.Errorf("malformed column count packet %.20q", p)
	}
	cols, err := c.readDefs(int(n), o)
	if err != nil {
		return err
	}
	types := make([]byte, len(cols))
	for i, col := range cols {
		res.Fields = append(res.Fields, pgproto3.FieldDescription{Name: []byte(col.name)})
		res.MyTypes = append(res.MyTypes, col.typeName())
		types[i] = col.typ
	}
	for {
		p, err := c.readPacket()
		if err != nil {
			return err
		}
		if len(p) > 0 && p[0] == 0xff {
			myErrPacket(p, res)
			break
		}
		if o.isTerminator(p) {
			break
		}
		var cells [][]byte
		if binaryRows {
			raw, err := myBinaryRow(p, types)
			if err != nil {
				return fmt.Errorf("binary row %d: %w", len(res.Rows), err)
			}
			cells = make([][]byte, len(raw))
			for i, cell := range raw {
				if cell == nil {
					continue
				}
				unsigned := cols[i].flags&0x0020 != 0
				switch types[i] {
				case myTypeTiny:
					if unsigned {
						cells[i] = []byte(strconv.Itoa(int(cell[0])))
					} else {
						cells[i] = []byte(strconv.Itoa(int(int8(cell[0]))))
					}
				case myTypeShort:
					v := binary.LittleEndian.Uint16(cell)
					if unsigned {
						cells[i] = []byte(strconv.Itoa(int(v)))
					} else {
						cells[i] = []byte(strconv.Itoa(int(int16(v))))
					}
				case myTypeLong:
					v := binary.LittleEndian.Uint32(cell)
					if unsigned {
						cells[i] = []byte(strconv.FormatUint(uint64(v), 10))
					} else {
						cells[i] = []byte(strconv.FormatInt(int64(int32(v)), 10))
					}
				case myTypeLongLong:
					v := binary.LittleEndian.Uint64(cell)
					if unsigned {
						cells[i] = []byte(strconv.FormatUint(v, 10))
					} else {
						cells[i] = []byte(strconv.FormatInt(int64(v), 10))
					}
				case myTypeFloat:
					cells[i] = []byte(strconv.FormatFloat(float64(math.Float32frombits(binary.LittleEndian.Uint32(cell))), 'g', -1, 32))
				case myTypeDouble:
					cells[i] = []byte(strconv.FormatFloat(math.Float64frombits(binary.LittleEndian.Uint64(cell)), 'g', -1, 64))
				default:
					cells[i] = append([]byte{}, cell...)
				}
			}
		} else {
			raw, err := myTextRow(p)
			if err != nil {
				return fmt.Errorf("text row %d: %w", len(res.Rows), err)
			}
			if len(raw) != len(cols) {
				return fmt.Errorf("text row %d has %d cells, the result set has %d columns", len(res.Rows), len(raw), len(cols))
			}
			cells = make([][]byte, len(raw))
			for i, cell := range raw {
				if cell != nil {
					cells[i] = append([]byte{}, cell...)
				}
			}
		}
		res.Rows = append(res.Rows, cells)
	}
	res.Ready = true
	return nil
}

// encodeArgs builds the parameter part of COM_STMT_EXECUTE.
func myEncodeArgs(args []interface{}, withTypes bool, long map[int]bool) ([]byte, error) {
	if len(args) == 0 {
		return nil, nil
	}
	nulls := make([]byte, (len(args)+7)/8)
	var types, values []byte
	for i, a := range args {
		switch v := a.(type) {
		case nil:
			nulls[i/8] |= 1 << (uint(i) % 8)
			types = append(types, myTypeNull, 0)
		case int64:
			types = append(types, myTypeLongLong, 0)
			values = binary.LittleEndian.AppendUint64(values, uint64(v))
		case int:
			types = append(types, myTypeLongLong, 0)
			values = binary.LittleEndian.AppendUint64(values, uint64(int64(v)))
		case string:
			types = append(types, myTypeString, 0)
			if !long[i] {
				values = lenencStr(values, []byte(v))
			}
		case []byte:
			if v == nil {
				nulls[i/8] |= 1 << (uint(i) % 8)
				types = append(types, myTypeNull, 0)
				continue
			}
			types = append(types, myTypeString, 0)
			if !long[i] {
				values = lenencStr(values, v)
			}
		default:
			return nil, fmt.Errorf("argument %d: type %T not supported by the simulated client", i, a)
		}
	}
	out := append([]byte{}, nulls...)
	if withTypes {
		out = append(out, 1)
		out = append(out, types...)
	} else {
		out = append(out, 0)
	}
	return append(out, values...), nil
}

// runMyRawClient plays a script over the client end of the connection.
func runMyRawClient(conn net.Conn, script []Stmt, results []StmtResult, o myRawOpts) error {
	c := &myRawConn{rw: conn}
	hs, err := c.readPacket()
	if err != nil {
		return fmt.Errorf("startup: %w", err)
	}
	if len(hs) > 0 && hs[0] == 0xff {
		return fmt.Errorf("startup: server refused the connection: %.60q", hs)
	}
	// protocol version, server version\0, thread id(4), auth data(8), filler, caps low(2), charset, status(2), caps high(2)
	end := 1
	for end < len(hs) && hs[end] != 0 {
		end++
	}
	if len(hs) < end+1+4+8+1+2+1+2+2 || hs[0] != 10 {
		return fmt.Errorf("startup: malformed handshake packet")
	}
	off := end + 1 + 4 + 8 + 1
	serverCaps := uint32(binary.LittleEndian.Uint16(hs[off:])) | uint32(binary.LittleEndian.Uint16(hs[off+5:]))<<16
	caps := uint32(myCapLongPassword | myCapLongFlag | myCapConnectWithDB | myCapProtocol41 | myCapTransactions |
		myCapSecureConn | myCapMultiResults | myCapPluginAuth)
	o.deprecateEOF = o.deprecateEOF && serverCaps&myCapDeprecateEOF != 0
	if o.deprecateEOF {
		caps |= myCapDeprecateEOF
	}
	resp := binary.LittleEndian.AppendUint32(nil, caps)
	resp = binary.LittleEndian.AppendUint32(resp, 1<<24)
	resp = append(resp, 45)
	resp = append(resp, make([]byte, 23)...)
	resp = append(resp, "sim\x00"...)
	resp = append(resp, 20)
	resp = append(resp, "01234567890123456789"...)
	resp = append(resp, "sim\x00"...)
	resp = append(resp, "mysql_native_password\x00"...)
	if err := c.writePacket(resp); err != nil {
		return fmt.Errorf("startup: %w", err)
	}
	okp, err := c.readPacket()
	if err != nil {
		return fmt.Errorf("startup: %w", err)
	}
	if len(okp) == 0 || okp[0] != 0x00 {
		return fmt.Errorf("startup: no OK after the handshake response: %.60q", okp)
	}
	var open []uint32
	prepared := map[string]uint32{}
	for i, st := range script {
		res := &results[i]
		clientIdles(st.IdleBefore)
		for _, pre := range st.Pre {
			var pr StmtResult
			if err := c.command(0x03, []byte(pre)); err != nil {
				return fmt.Errorf("statement %d: %w", i, err)
			}
			if err := c.readResult(&pr, false, o); err != nil {
				return fmt.Errorf("statement %d (%q): %w", i, pre, err)
			}
			if pr.Err != "" {
				res.Err, res.ErrCode, res.Ready = pr.Err, pr.ErrCode, true
				break
			}
		}
		if res.Err != "" {
			continue
		}
		if !st.Extended {
			if err := c.command(0x03, []byte(st.SQL)); err != nil {
				return fmt.Errorf("statement %d: %w", i, err)
			}
			if err := c.readResult(res, false, o); err != nil {
				return fmt.Errorf("statement %d: %w", i, err)
			}
			continue
		}
		if st.Direct {
			// MariaDB: statement id -1 names the last statement prepared on the connection
			args, err := myEncodeArgs(st.Args, true, nil)
			if err != nil {
				return fmt.Errorf("statement %d: %w", i, err)
			}
			body := []byte{0xff, 0xff, 0xff, 0xff, 0x00, 1, 0, 0, 0}
			if err := c.command(0x17, append(body, args...)); err != nil {
				return fmt.Errorf("statement %d: %w", i, err)
			}
			if err := c.readResult(res, true, o); err != nil {
				return fmt.Errorf("statement %d (direct execution): %w", i, err)
			}
			continue
		}
		// with reexec a statement text seen before in the session is not prepared again: the statement
		// is executed with the new values and without repeating the types (an application that prepares
		// once, binds its buffers once and executes per row)
		sig := fmt.Sprintf("%s|%s", st.SQL, myArgSignature(st.Args))
		known, reuse := prepared[sig]
		reuse = reuse && o.reexec
		var id uint32
		if reuse {
			id = known
		} else {
			if err := c.command(0x16, []byte(st.SQL)); err != nil {
				return fmt.Errorf("statement %d: %w", i, err)
			}
			p, err := c.readPacket()
			if err != nil {
				return fmt.Errorf("statement %d: %w", i, err)
			}
			if len(p) > 0 && p[0] == 0xff {
				myErrPacket(p, res)
				res.Ready = true
				continue
			}
			if len(p) < 12 || p[0] != 0x00 {
				return fmt.Errorf("statement %d: malformed answer to prepare %.30q", i, p)
			}
			id = binary.LittleEndian.Uint32(p[1:])
			nCols := int(binary.LittleEndian.Uint16(p[5:]))
			nParams := int(binary.LittleEndian.Uint16(p[7:]))
			if _, err := c.readDefs(nParams, o); err != nil {
				return fmt.Errorf("statement %d: parameter definitions: %w", i, err)
			}
			if _, err := c.readDefs(nCols, o); err != nil {
				return fmt.Errorf("statement %d: column definitions: %w", i, err)
			}
			open = append(open, id)
			if nParams != len(st.Args) {
				return fmt.Errorf("statement %d: the server counts %d parameters, the statement has %d", i, nParams, len(st.Args))
			}
			if len(st.Args) > 0 {
				prepared[sig] = id
			}
		}
		if st.PrepareOnly {
			res.Ready = true
			continue
		}
		execs := 1
		if o.reexec && len(st.Args) > 0 && strings.HasPrefix(strings.ToUpper(strings.TrimSpace(st.SQL)), "SELECT") {
			execs = 2
		}
		for e := 0; e < execs; e++ {
			if e > 0 {
				// another statement goes through the proxy before the second execution
				var between StmtResult
				if err := c.command(0x03, []byte("SELECT id FROM t1 WHERE id = -1")); err != nil {
					return fmt.Errorf("statement %d: %w", i, err)
				}
				if err := c.readResult(&between, false, o); err != nil {
					return fmt.Errorf("statement %d (statement in between): %w", i, err)
				}
			}
			long := map[int]bool{}
			if o.longData {
				for k, a := range st.Args {
					var v []byte
					switch x := a.(type) {
					case string:
						v = []byte(x)
					case []byte:
						v = x
					}
					if len(v) < 8 {
						continue
					}
					long[k] = true
					for _, piece := range [][]byte{v[:len(v)/2], v[len(v)/2:]} {
						body := binary.LittleEndian.AppendUint32(nil, id)
						body = append(body, byte(k), byte(k>>8))
						if err := c.command(0x18, append(body, piece...)); err != nil {
							return fmt.Errorf("statement %d: %w", i, err)
						}
					}
				}
			}
			args, err := myEncodeArgs(st.Args, e == 0 && !reuse, long)
			if err != nil {
				return fmt.Errorf("statement %d: %w", i, err)
			}
			body := binary.LittleEndian.AppendUint32(nil, id)
			body = append(body, 0x00)       // no cursor
			body = append(body, 1, 0, 0, 0) // iteration count
			if err := c.command(0x17, append(body, args...)); err != nil {
				return fmt.Errorf("statement %d: %w", i, err)
			}
			if err := c.readResult(res, true, o); err != nil {
				return fmt.Errorf("statement %d (execution %d): %w", i, e+1, err)
			}
			if res.Err != "" {
				break
			}
		}
	}
	for _, id := range open {
		if err := c.command(0x19, binary.LittleEndian.AppendUint32(nil, id)); err != nil {
			return nil
		}
	}
	_ = c.command(0x01, nil)
	return nil
}

// myArgSignature names the wire types the arguments are sent with (NULLs change the type list).
func myArgSignature(args []interface{}) string {
	var b strings.Builder
	for _, a := range args {
		switch v := a.(type) {
		case nil:
			b.WriteByte('n')
		case int64, int:
			b.WriteByte('i')
		case string:
			b.WriteByte('s')
		case []byte:
			if v == nil {
				b.WriteByte('n')
			} else {
				b.WriteByte('s')
			}
		default:
			b.WriteByte('?')
		}
	}
	return b.String()
}
