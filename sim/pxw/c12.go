package pxw

import (
	"bytes"
	"fmt"
	"strings"
	"testing"
	"time"

	"github.com/jackc/pgx/v5/pgproto3"

	"verif/sim/kernel"
)

// C12 — relayed protocol messages stay byte-identical; rewritten ones stay
// well-formed.
//
// Part 1 (relay): a session touches only tables the configuration does not
// cover, with rows holding NULL, empty and boundary-length values, text and
// binary results, while the database emits asynchronous messages (notices,
// notifications, parameter status) between answers. Both byte streams must be
// identical on the two sides of the proxy, under every fragmentation.
// Part 2 (rewrite): rows mixing protected, NULL, empty and unprotected cells;
// both sides of the database->client direction are re-parsed with an
// independent codec (pgproto3) and compared message by message.
type C12 struct{}

func (C12) ID() string { return "C12" }

var c12Lens = []int{0, 1, 250, 251, 255, 256, 65535, 65536, 70000}

func (C12) Explore(x *kernel.Explorer, seed uint64) {
	r := kernel.NewRNG(seed, 0xc12)
	for i := 0; i < 4 && !x.Expired(); i++ {
		plan := &kernel.Plan{Prop: "C12", Seed: kernel.Mix(seed, uint64(i)), Swarm: map[string]int64{"idlenth": int64([]int{0, 0, 0, 2, 3}[r.Intn(5)]), "fetch": int64([]int{0, 0, 1, 2}[r.Intn(4)]),
			"chunk": []int64{0, 0, 1, 3}[r.Intn(4)], "part": int64(1 + r.Intn(2)), "colseed": int64(r.Uint32()), "mysql": int64(r.Intn(3) / 2), "depeof": int64(r.Intn(2)), "rawmy": int64(r.Intn(2)), "reexec": int64(r.Intn(2)), "wyield": int64(r.Intn(2))}}
		n := 2 + r.Intn(6)
		if r.Intn(400) == 0 {
			// rarely: MySQL payloads around the 16 MiB packet boundary (multi-packet payloads), whole deliveries
			plan.Swarm["mysql"], plan.Swarm["part"], plan.Swarm["chunk"], plan.Swarm["big"] = 1, 1, 0, 1
			n = 1
		}
		for j := 0; j < n; j++ {
			plan.Ops = append(plan.Ops, kernel.Op{ID: j + 1, Kind: "stmt", A: []int64{int64(r.Intn(6)), int64(r.Intn(len(c12Lens))), int64(r.Intn(2)), int64(r.Intn(4))}})
		}
		x.Exec(plan)
	}
}

// parseBackend splits a backend byte stream (after the startup phase is included) into messages.
func parseBackend(stream []byte) ([]pgproto3.BackendMessage, [][]byte, error) {
	fe := pgproto3.NewFrontend(bytes.NewReader(stream), nil)
	var msgs []pgproto3.BackendMessage
	var raws [][]byte
	for {
		m, err := fe.Receive()
		if err != nil {
			if strings.Contains(err.Error(), "EOF") {
				return msgs, raws, nil
			}
			return msgs, raws, err
		}
		enc, eerr := m.Encode(nil)
		if eerr != nil {
			return msgs, raws, eerr
		}
		raws = append(raws, enc)
		// copy: pgproto3 reuses message structs
		switch v := m.(type) {
		case *pgproto3.DataRow:
			c := &pgproto3.DataRow{Values: make([][]byte, len(v.Values))}
			for i, x := range v.Values {
				if x != nil {
					c.Values[i] = append([]byte{}, x...)
				}
			}
			msgs = append(msgs, c)
		case *pgproto3.RowDescription:
			c := &pgproto3.RowDescription{Fields: append([]pgproto3.FieldDescription(nil), v.Fields...)}
			msgs = append(msgs, c)
		default:
			msgs = append(msgs, nil) // only the raw form is compared
		}
	}
}

func (C12) Run(t *testing.T, plan *kernel.Plan, keepLog bool) *kernel.Result {
	if plan.Sw("mysql") == 1 {
		return c12MySQL(t, plan, keepLog)
	}
	w := kernel.NewWorld(plan, keepLog)
	Bubble(t, plan.Seed, func() {
		start := time.Now()
		rng := kernel.NewRNG(plan.Seed, 0xd12c)
		cols := drawCols(kernel.NewRNG(uint64(plan.Sw("colseed")), 4), "")
		pw, names, err := colWorld(w, plan, rng, cols)
		if err != nil {
			w.Violate("C12", "world-builds", "pg", err.Error())
			return
		}
		pw.maxSteps = 30000
		t2 := pw.DB.AddTable("t2", Col{"id", TInt4}, Col{"a", TText}, Col{"b", TBytea}, Col{"c", TText})
		part := int(plan.Sw("part"))
		var script []Stmt
		rows := 0
		for i, op := range plan.Ops {
			n := c12Lens[int(op.Arg(1, 0))%len(c12Lens)]
			if plan.Sw("chunk") != 0 && n > 300 {
				n = 251
			}
			val := strings.Repeat("v", n)
			// values that look like the database's own spellings of binary data
			switch op.Arg(0, 0) {
			case 4:
				val = []string{"\\x", "\\x41", "\\xZZ", "\\101", "\\\\", "\\x4"}[n%6]
			case 5:
				val = "%%ERROR" + val
			}
			binaryRes := op.Arg(2, 0) == 1
			if part == 1 {
				// rows with NULL / empty / boundary-length cells, written directly
				t2.Rows = append(t2.Rows, [][]byte{[]byte(fmt.Sprint(i + 1)), []byte(val), nil, []byte{}})
				t2.Rows = append(t2.Rows, [][]byte{[]byte(fmt.Sprint(1000 + i)), nil, []byte(val), []byte("x")})
				st := Stmt{SQL: fmt.Sprintf("SELECT id, a, b, c FROM t2 WHERE id = %d OR id = %d", i+1, 1000+i)}
				if binaryRes {
					st.Extended, st.ResultFormats, st.Describe = true, []int16{1}, true
				}
				switch op.Arg(0, 0) {
				case 1:
					st = Stmt{SQL: fmt.Sprintf("INSERT INTO t2 (id, a, b, c) VALUES (%d, %s, NULL, '')", 5000+i, sqlQuote(val))}
				case 2:
					st = Stmt{SQL: fmt.Sprintf("UPDATE t2 SET a = %s WHERE id = %d", sqlQuote(val), i+1), Extended: true}
				case 3:
					st = Stmt{SQL: "SELECT id FROM no_such_table"} // error response relayed too
				}
				script = append(script, st)
				// asynchronous traffic from the database between answers
				switch op.Arg(3, 0) {
				case 1:
					pw.DB.ExtraBefore[i] = []pgproto3.BackendMessage{&pgproto3.NoticeResponse{Severity: "NOTICE", Code: "00000", Message: "simulated notice " + val[:min(len(val), 40)]}}
				case 2:
					pw.DB.ExtraBefore[i] = []pgproto3.BackendMessage{&pgproto3.NotificationResponse{PID: 7, Channel: "chan", Payload: "payload"}, &pgproto3.ParameterStatus{Name: "TimeZone", Value: "UTC"}}
				}
				continue
			}
			// part 2: rows mixing protected cells with NULL, empty and plain ones
			rows++
			vals := make([]string, len(cols))
			for k, c := range cols {
				vals[k] = marker(c, rows, 1)
			}
			ins := insertStmt(names, rows, vals, cols, op.Arg(2, 0) == 1)
			if ins.Extended && op.Arg(0, 0)%3 != 0 {
				// every parameter in the binary format (one code for all, or one per parameter), as drivers that
				// prefer the binary format send them; numeric protected values stay text, so only without such columns
				numeric := false
				for _, c := range cols {
					numeric = numeric || c.numeric()
				}
				if !numeric {
					ins.Params[0] = []byte{byte(rows >> 24), byte(rows >> 16), byte(rows >> 8), byte(rows)}
					ins.ParamFormats = []int16{1}
					if op.Arg(0, 0)%3 == 2 {
						ins.ParamFormats = make([]int16, len(ins.Params))
						for k := range ins.ParamFormats {
							ins.ParamFormats[k] = 1
						}
					}
				}
			}
			if op.Arg(3, 0) >= 2 {
				// extended protocol, declared parameter types, protected values as literals:
				// the query text of the Parse message grows while its parameter types stay
				ins = insertStmt(names, rows, vals, cols, false)
				ins.SQL = strings.Replace(ins.SQL, fmt.Sprintf("VALUES (%d, 'p'", rows), "VALUES ($1, $2", 1)
				ins.Extended, ins.Params, ins.ParamOIDs = true, [][]byte{[]byte(fmt.Sprint(rows)), []byte("p")}, []uint32{23, 25}
				if op.Arg(3, 0) == 3 {
					ins.Params[1] = nil // a NULL parameter
				}
			}
			script = append(script, ins)
			if op.Arg(0, 0)%2 == 0 {
				// a row whose protected cells are NULL
				rows++
				script = append(script, Stmt{SQL: fmt.Sprintf("INSERT INTO t1 (id, plain) VALUES (%d, '')", rows)})
			}
			sel := Stmt{SQL: "SELECT * FROM t1"}
			if binaryRes {
				sel.Extended, sel.ResultFormats, sel.Describe = true, []int16{1}, true
			}
			script = append(script, sel)
		}
		if part == 1 {
			// rows of 7, 8, 15 and 16 columns (NULLs included), text and binary
			c14WideTables(pw)
			n := []int{7, 8, 15, 16}[int(plan.Seed>>3)%4]
			script = append(script, Stmt{SQL: fmt.Sprintf("SELECT * FROM w%d", n)},
				Stmt{SQL: fmt.Sprintf("SELECT * FROM w%d", n), Extended: true, Describe: true, ResultFormats: []int16{1}})
		}
		run := pw.RunSession(owner, script)
		if w.Res.Cut {
			return
		}
		for _, p := range pw.Panics {
			w.Violate("C14", "no-panic", "pg/proxy", p)
		}
		if run.Stuck || run.ClientErr != "" {
			w.Violate("C12", "session-completes", fmt.Sprintf("pg/part%d", part), fmt.Sprintf("stuck=%v %q %v", run.Stuck, run.ClientErr, run.ProxyErrs))
			return
		}
		if part == 1 {
			// nothing here is covered by the configuration: both directions are relayed byte for byte
			if !bytes.Equal(run.FromCl.Log, run.ToDB.Log) {
				i := firstDiff(run.FromCl.Log, run.ToDB.Log)
				w.Violate("C12", "client-to-database-relayed-identically", "pg", fmt.Sprintf("streams differ at byte %d: client sent %.40q, database got %.40q", i, tailAt(run.FromCl.Log, i), tailAt(run.ToDB.Log, i)))
			}
			if !bytes.Equal(run.FromDB.Log, run.ToClient.Log) {
				i := firstDiff(run.FromDB.Log, run.ToClient.Log)
				w.Violate("C12", "database-to-client-relayed-identically", "pg", fmt.Sprintf("streams differ at byte %d: database sent %.40q, client got %.40q", i, tailAt(run.FromDB.Log, i), tailAt(run.ToClient.Log, i)))
			}
			w.Probe("relay-session")
		} else {
			// re-parse both sides of the database -> client direction
			dbMsgs, dbRaw, err1 := parseBackend(run.FromDB.Log)
			clMsgs, clRaw, err2 := parseBackend(run.ToClient.Log)
			if err1 != nil || err2 != nil {
				w.Violate("C12", "rewritten-messages-well-formed", "pg", fmt.Sprintf("independent codec fails: db side %v, client side %v", err1, err2))
				return
			}
			if len(dbMsgs) != len(clMsgs) {
				w.Violate("C12", "message-count-preserved", "pg", fmt.Sprintf("database sent %d messages, client got %d", len(dbMsgs), len(clMsgs)))
				return
			}
			protectedCol := map[int]bool{}
			for k := range cols {
				protectedCol[2+k] = true
			}
			for i := range dbMsgs {
				switch d := dbMsgs[i].(type) {
				case *pgproto3.DataRow:
					c, ok := clMsgs[i].(*pgproto3.DataRow)
					if !ok || len(c.Values) != len(d.Values) {
						w.Violate("C12", "field-count-preserved", "pg/DataRow", fmt.Sprintf("message %d: %d fields became %T with different count", i, len(d.Values), clMsgs[i]))
						return
					}
					for k := range d.Values {
						if (d.Values[k] == nil) != (c.Values[k] == nil) {
							w.Violate("C12", "null-markers-preserved", "pg/DataRow", fmt.Sprintf("message %d field %d: NULL marker changed", i, k))
							return
						}
						if !protectedCol[k] && !bytes.Equal(d.Values[k], c.Values[k]) {
							w.Violate("C12", "untransformed-field-identical", "pg/DataRow", fmt.Sprintf("message %d field %d: %.30q became %.30q", i, k, d.Values[k], c.Values[k]))
							return
						}
					}
				case *pgproto3.RowDescription:
					c, ok := clMsgs[i].(*pgproto3.RowDescription)
					if !ok || len(c.Fields) != len(d.Fields) {
						w.Violate("C12", "field-count-preserved", "pg/RowDescription", fmt.Sprintf("message %d", i))
						return
					}
				default:
					if !bytes.Equal(dbRaw[i], clRaw[i]) {
						w.Violate("C12", "untouched-message-identical", "pg", fmt.Sprintf("message %d: %.40q became %.40q", i, dbRaw[i], clRaw[i]))
						return
					}
				}
			}
			c12ClientToDB(w, run)
			w.Probe("rewrite-session")
		}
		w.State(fmt.Sprintf("part%d stmts=%d", part, len(script)))
		w.Res.SimNanos = int64(time.Since(start))
	})
	return w.Finish()
}

func firstDiff(a, b []byte) int {
	n := min(len(a), len(b))
	for i := 0; i < n; i++ {
		if a[i] != b[i] {
			return i
		}
	}
	return n
}

func tailAt(b []byte, i int) []byte {
	if i > len(b) {
		i = len(b)
	}
	return b[i:min(len(b), i+40)]
}

// parseFrontendStream splits a client->server byte stream into messages (startup message first).
func parseFrontendStream(stream []byte) ([]pgproto3.FrontendMessage, error) {
	be := pgproto3.NewBackend(bytes.NewReader(stream), nil)
	if _, err := be.ReceiveStartupMessage(); err != nil {
		return nil, err
	}
	var msgs []pgproto3.FrontendMessage
	for {
		m, err := be.Receive()
		if err != nil {
			if strings.Contains(err.Error(), "EOF") {
				return msgs, nil
			}
			return msgs, err
		}
		switch v := m.(type) {
		case *pgproto3.Parse:
			msgs = append(msgs, &pgproto3.Parse{Name: v.Name, Query: v.Query, ParameterOIDs: append([]uint32(nil), v.ParameterOIDs...)})
		case *pgproto3.Bind:
			c := &pgproto3.Bind{DestinationPortal: v.DestinationPortal, PreparedStatement: v.PreparedStatement,
				ParameterFormatCodes: append([]int16(nil), v.ParameterFormatCodes...), ResultFormatCodes: append([]int16(nil), v.ResultFormatCodes...)}
			for _, x := range v.Parameters {
				if x == nil {
					c.Parameters = append(c.Parameters, nil)
				} else {
					c.Parameters = append(c.Parameters, append([]byte{}, x...))
				}
			}
			msgs = append(msgs, c)
		case *pgproto3.Query:
			msgs = append(msgs, &pgproto3.Query{String: v.String})
		default:
			enc, err := m.Encode(nil)
			if err != nil {
				return msgs, err
			}
			msgs = append(msgs, &rawFrontend{enc})
		}
	}
}

type rawFrontend struct{ b []byte }

func (*rawFrontend) Frontend()                           {}
func (*rawFrontend) Decode([]byte) error                 { return nil }
func (r *rawFrontend) Encode(dst []byte) ([]byte, error) { return append(dst, r.b...), nil }

// c12ClientToDB compares the client->proxy and proxy->database streams message by message:
// rewritten Parse/Bind/Query keep everything except the query text and the transformed parameter values.
func c12ClientToDB(w *kernel.World, run *SessionRun) {
	cl, err1 := parseFrontendStream(run.FromCl.Log)
	db, err2 := parseFrontendStream(run.ToDB.Log)
	if err1 != nil || err2 != nil {
		w.Violate("C12", "rewritten-messages-well-formed", "pg/client-to-database", fmt.Sprintf("independent codec fails: client side %v, database side %v", err1, err2))
		return
	}
	if len(cl) != len(db) {
		w.Violate("C12", "message-count-preserved", "pg/client-to-database", fmt.Sprintf("client sent %d messages, database got %d", len(cl), len(db)))
		return
	}
	for i := range cl {
		switch c := cl[i].(type) {
		case *pgproto3.Parse:
			d, ok := db[i].(*pgproto3.Parse)
			if !ok || d.Name != c.Name || fmt.Sprint(d.ParameterOIDs) != fmt.Sprint(c.ParameterOIDs) {
				w.Violate("C12", "untransformed-field-identical", "pg/Parse", fmt.Sprintf("message %d: client sent name=%q types=%v, database got %T %+v", i, c.Name, c.ParameterOIDs, db[i], db[i]))
				return
			}
		case *pgproto3.Bind:
			d, ok := db[i].(*pgproto3.Bind)
			// parameter format codes may legitimately change for the parameters Acra transforms (a protected
			// value travels in binary); the first two parameters (id, plain) are never transformed here
			if !ok || d.DestinationPortal != c.DestinationPortal || d.PreparedStatement != c.PreparedStatement ||
				fmt.Sprint(d.ResultFormatCodes) != fmt.Sprint(c.ResultFormatCodes) ||
				len(d.Parameters) != len(c.Parameters) {
				w.Violate("C12", "untransformed-field-identical", "pg/Bind", fmt.Sprintf("message %d: client sent %+v, database got %T %+v", i, c, db[i], db[i]))
				return
			}
			for k := range c.Parameters {
				if (c.Parameters[k] == nil) != (d.Parameters[k] == nil) {
					w.Violate("C12", "null-markers-preserved", "pg/Bind", fmt.Sprintf("message %d parameter %d: NULL marker changed", i, k))
					return
				}
				if k < 2 && (!bytes.Equal(c.Parameters[k], d.Parameters[k]) || bindFormat(c, k) != bindFormat(d, k)) {
					w.Violate("C12", "untransformed-field-identical", "pg/Bind", fmt.Sprintf("message %d parameter %d: %.30q (format %d) became %.30q (format %d)", i, k, c.Parameters[k], bindFormat(c, k), d.Parameters[k], bindFormat(d, k)))
					return
				}
			}
		case *pgproto3.Query:
			if _, ok := db[i].(*pgproto3.Query); !ok {
				w.Violate("C12", "message-count-preserved", "pg/Query", fmt.Sprintf("message %d became %T", i, db[i]))
				return
			}
		default:
			a, _ := cl[i].Encode(nil)
			b, _ := db[i].Encode(nil)
			if !bytes.Equal(a, b) {
				w.Violate("C12", "untouched-message-identical", "pg/client-to-database", fmt.Sprintf("message %d: %.40q became %.40q", i, a, b))
				return
			}
		}
	}
}

// bindFormat is the effective format code of parameter k of a Bind message.
func bindFormat(b *pgproto3.Bind, k int) int16 {
	switch len(b.ParameterFormatCodes) {
	case 0:
		return 0
	case 1:
		return b.ParameterFormatCodes[0]
	}
	if k < len(b.ParameterFormatCodes) {
		return b.ParameterFormatCodes[k]
	}
	return 0
}
