package pxw

import (
	"bytes"
	"context"
	"fmt"
	"io"
	"sync"

	translator "github.com/cossacklabs/acra/cmd/acra-translator/common"
	"github.com/cossacklabs/acra/keystore"
	ksfs "github.com/cossacklabs/acra/keystore/filesystem"
	"github.com/cossacklabs/acra/logging"
	"github.com/sirupsen/logrus"

	"verif/sim/kernel"
	"verif/sim/ksw"
	"verif/sim/simfs"
)

// Concurrent requests on one TranslatorService (C02, swarm knob `conc`).
//
// AcraTranslator serves every gRPC/HTTP request on a goroutine of its own and
// all of them call the same TranslatorService. Here 2-4 simulated request
// goroutines, each with an identity of its own, call the service's operations
// on values protected for the owner and for the stranger. Exactly one of them
// runs at a time (kernel.RunProcs); the scheduling points are the seams a
// request passes anyway: every line it logs through the logger carried in its
// request context (a logrus hook), every file operation and every master-key
// operation of the key store, and the key store's lock. Who runs next at each
// point is the seeded scheduler's choice (on the tape, so it shrinks and
// replays).

type concYieldHook struct{ w *kernel.World }

func (h concYieldHook) Levels() []logrus.Level { return logrus.AllLevels }
func (h concYieldHook) Fire(e *logrus.Entry) error {
	h.w.Seam(h.w.Cur, "log", e.Message)
	return nil
}

type concYieldEncryptor struct {
	inner keystore.KeyEncryptor
	w     *kernel.World
}

func (y concYieldEncryptor) Encrypt(ctx context.Context, key []byte, kc keystore.KeyContext) ([]byte, error) {
	y.w.Seam(y.w.Cur, "enc.Encrypt", kc.String())
	return y.inner.Encrypt(ctx, key, kc)
}

func (y concYieldEncryptor) Decrypt(ctx context.Context, key []byte, kc keystore.KeyContext) ([]byte, error) {
	y.w.Seam(y.w.Cur, "enc.Decrypt", kc.String())
	return y.inner.Decrypt(ctx, key, kc)
}

type concValue struct {
	forClient string
	plain     []byte
	p         *protected
}

type concRequest struct {
	reader string
	val    int    // index into values (reveal) or -1 (protect)
	entry  string // protect entry for val == -1
	plain  []byte
	// results
	name string
	out  []byte
	hash []byte
	err  error
	pnc  interface{}
}

// prop is the property the run belongs to: C01 judges what the owners get back, C02 what the others get.
func c02Conc(w *kernel.World, cw *cryptoWorld, plan *kernel.Plan, prop string) {
	rng := kernel.NewRNG(plan.Seed, 0xc02c)
	disk := cw.pw.Disk
	// (the sessions before have used the world's step counter for their deliveries)
	w.MaxSteps = w.Res.Steps + 20000
	enc, err := keystore.NewSCellKeyEncryptor(disk.Master)
	if err != nil {
		w.Violate(prop, "world-builds", "conc", err.Error())
		return
	}
	cache := []int{keystore.WithoutCache, keystore.InfiniteCacheSize, 1, 2}[rng.Intn(4)]
	ks, err := ksfs.NewCustomFilesystemKeyStore().KeyDirectory(ksw.Root).Encryptor(concYieldEncryptor{enc, w}).
		Storage(&simfs.FaultFS{FS: disk.FS, W: w, Shared: true}).CacheSize(cache).Build()
	if err != nil {
		w.Violate(prop, "world-builds", "conc", err.Error())
		return
	}
	svc, err := translator.NewTranslatorService(&translator.TranslatorData{Keystorage: ks, PoisonRecordCallbacks: cw.pw.Poison})
	if err != nil {
		w.Violate(prop, "world-builds", "conc", err.Error())
		return
	}
	// values protected beforehand, one per translator entry and owner
	var values []concValue
	for _, c := range []string{owner, stranger} {
		for _, entry := range protectEntries[2:] {
			plain := []byte(fmt.Sprintf("CONC-SECRET-OF-%s-%s-%d", c, entry, len(values)))
			p, err := cw.protect(entry, c, plain)
			if err != nil {
				w.Violate(prop, "protect-succeeds", "conc/"+entry, err.Error())
				return
			}
			values = append(values, concValue{c, plain, p})
		}
	}
	nproc := 2 + rng.Intn(3)
	readers := []string{owner, stranger, nokeys}
	scripts := make([][]*concRequest, nproc)
	for i := range scripts {
		// the first two requests goroutines are the owner and the stranger; further ones are drawn
		reader := readers[i%2]
		if i >= 2 {
			reader = readers[rng.Intn(3)]
		}
		n := 2 + rng.Intn(4)
		for j := 0; j < n; j++ {
			rq := &concRequest{reader: reader, val: rng.Intn(len(values))}
			if reader != nokeys && rng.Intn(5) == 0 {
				rq.val = -1
				rq.entry = protectEntries[2+rng.Intn(4)]
				rq.plain = []byte(fmt.Sprintf("CONC-WRITTEN-BY-%s-%d-%d", reader, i, j))
			}
			scripts[i] = append(scripts[i], rq)
		}
	}
	ksfs.SimLockHook = func(l *sync.RWMutex) {
		w.Yield(w.Cur, "v1.store.lock")
		for !l.TryLock() {
			w.Block(w.Cur, "v1.store.lock")
		}
	}
	ksfs.SimUnlockHook = func() { w.Progress() }
	defer func() { ksfs.SimLockHook, ksfs.SimUnlockHook = nil, nil }()

	bodies := make([]func(int), nproc)
	for i := range bodies {
		script := scripts[i]
		bodies[i] = func(proc int) {
			l := logrus.New()
			l.Out = io.Discard
			l.Level = logrus.DebugLevel
			l.AddHook(concYieldHook{w})
			ctx := logging.SetLoggerToContext(context.Background(), logrus.NewEntry(l))
			for _, rq := range script {
				func() {
					defer func() {
						if x := recover(); x != nil {
							switch x.(type) {
							case kernel.CutSignal, kernel.CrashSignal:
								panic(x)
							}
							rq.pnc = x
						}
					}()
					cid := []byte(rq.reader)
					if rq.val < 0 {
						rq.name = rq.entry
						switch rq.entry {
						case "tr-encrypt":
							rq.out, rq.err = svc.Encrypt(ctx, rq.plain, cid, nil)
						case "tr-encrypt-sym":
							rq.out, rq.err = svc.EncryptSym(ctx, rq.plain, cid, nil)
						case "tr-searchable":
							var r translator.SearchableResponse
							r, rq.err = svc.EncryptSearchable(ctx, rq.plain, cid, nil)
							rq.out, rq.hash = r.EncryptedData, r.Hash
						case "tr-searchable-sym":
							var r translator.SearchableResponse
							r, rq.err = svc.EncryptSymSearchable(ctx, rq.plain, cid, nil)
							rq.out, rq.hash = r.EncryptedData, r.Hash
						}
						return
					}
					v := values[rq.val]
					switch {
					case v.p.sym && v.p.hash != nil:
						rq.name = "tr-decrypt-searchable-sym"
						rq.out, rq.err = svc.DecryptSymSearchable(ctx, v.p.data, v.p.hash, cid, nil)
					case v.p.sym:
						rq.name = "tr-decrypt-sym"
						rq.out, rq.err = svc.DecryptSym(ctx, v.p.data, cid, nil)
					case v.p.hash != nil:
						rq.name = "tr-decrypt-searchable"
						rq.out, rq.err = svc.DecryptSearchable(ctx, v.p.data, v.p.hash, cid, nil)
					default:
						rq.name = "tr-decrypt"
						rq.out, rq.err = svc.Decrypt(ctx, v.p.data, cid, nil)
					}
				}()
			}
		}
	}
	w.RunProcs(bodies)
	if w.Res.Cut {
		return
	}
	w.Res.Probes["conc-requests"] += 0
	for _, script := range scripts {
		for _, rq := range script {
			w.Res.Probes["conc-requests"]++
			if rq.pnc != nil {
				w.Violate("C14", "no-panic", "conc/"+rq.name, fmt.Sprint(rq.pnc))
				continue
			}
			if rq.val < 0 {
				// what a request protected under concurrency belongs to its own identity only
				if rq.err != nil {
					w.Violate(prop, "protect-succeeds", "conc/"+rq.entry, rq.err.Error())
					continue
				}
				p := &protected{entry: rq.entry, data: rq.out, hash: rq.hash, sym: rq.entry == "tr-encrypt-sym" || rq.entry == "tr-searchable-sym"}
				for _, reader := range readers {
					for _, r := range cw.reveal(p, p.data, p.hash, reader, nil, nil, false) {
						site := "conc/" + rq.entry + "->" + r.name
						switch {
						case r.panic != nil:
							w.Violate("C14", "no-panic", "reveal/"+r.name, fmt.Sprint(r.panic))
						case reader == rq.reader && (r.err != nil || !bytes.Equal(r.out, rq.plain)):
							w.Violate(prop, "written-under-concurrency-belongs-to-its-writer", site, fmt.Sprintf("%s cannot reveal what its own request protected: err=%v", reader, r.err))
						case prop == "C01":
						case reader != rq.reader && r.err == nil && bytes.Contains(r.out, rq.plain):
							w.Violate("C02", "written-under-concurrency-belongs-to-its-writer", site, fmt.Sprintf("%s reveals what a concurrent request of %s protected", reader, rq.reader))
						}
					}
				}
				continue
			}
			v := values[rq.val]
			site := "conc/" + v.p.entry + "->" + rq.name
			switch {
			case rq.reader == v.forClient:
				if rq.err != nil || !bytes.Equal(rq.out, v.plain) {
					w.Violate(prop, "owner-reveals-own-value-under-concurrency", site, fmt.Sprintf("request of %s on its own value: err=%v, %d bytes", rq.reader, rq.err, len(rq.out)))
				}
			case prop == "C01":
			case rq.err == nil && bytes.Contains(rq.out, v.plain):
				w.Violate("C02", "other-identity-never-gets-plaintext", site, fmt.Sprintf("a request of %s running next to other requests revealed %q protected for %s", rq.reader, v.plain, v.forClient))
			case rq.err == nil && !bytes.Equal(rq.out, v.p.data):
				w.Violate("C02", "other-identity-gets-stored-form-unchanged", site, fmt.Sprintf("request of %s got %d bytes that are neither an error nor the stored value", rq.reader, len(rq.out)))
			}
		}
	}
}
