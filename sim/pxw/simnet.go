// Package pxw is the network world: scripted clients, the real SQL proxy and
// a simulated database, connected by in-memory byte streams whose delivery —
// which stream, how many bytes — is decided by the plan's tape, one delivery
// per quiescence of the synctest bubble (DESIGN.md §2.1 network engine).
package pxw

import (
	"errors"
	"io"
	"net"
	"sync"
	"time"
)

// stream is one direction of a connection.
type stream struct {
	name     string
	mu       *sync.Mutex
	cond     *sync.Cond
	inflight []byte // written, not yet delivered
	ready    []byte // delivered, not yet read
	wclosed  bool   // writer closed: EOF after everything is delivered and read
	rclosed  bool   // reader closed
	stalled  bool   // fault: nothing is delivered on this stream any more
	Log      []byte // everything ever written (oracles read this)
	Writes   [][]byte
	// yield: a Write returns only when the scheduler resumes the writer, so that what the peer does
	// with the bytes can be scheduled before the writer's next instruction (a real Write returns while
	// the peer may already be reacting)
	yield    bool
	parked   int
	releases int
	wcond    *sync.Cond
}

func newStream(name string) *stream {
	mu := &sync.Mutex{}
	return &stream{name: name, mu: mu, cond: sync.NewCond(mu), wcond: sync.NewCond(mu)}
}

// SimConn is one end of a simulated connection; it implements net.Conn.
type SimConn struct {
	rd, wr *stream
	label  string
	// write deadline, honoured against the (fake) clock; read deadlines are not modelled
	dlMu sync.Mutex
	wdl  time.Time
}

// timeoutError is what a net.Conn returns when a deadline has passed.
type timeoutError struct{}

func (timeoutError) Error() string   { return "i/o timeout" }
func (timeoutError) Timeout() bool   { return true }
func (timeoutError) Temporary() bool { return true }

// NewConnPair makes the two ends of a connection a<->b.
func NewConnPair(a, b string) (*SimConn, *SimConn) {
	ab := newStream(a + "->" + b)
	ba := newStream(b + "->" + a)
	return &SimConn{rd: ba, wr: ab, label: a}, &SimConn{rd: ab, wr: ba, label: b}
}

var errClosed = errors.New("use of closed simulated connection")

// Read blocks (durably, for synctest) until the scheduler delivers bytes.
func (c *SimConn) Read(p []byte) (int, error) {
	s := c.rd
	s.mu.Lock()
	defer s.mu.Unlock()
	for len(s.ready) == 0 {
		if s.rclosed {
			return 0, errClosed
		}
		if s.wclosed && len(s.inflight) == 0 {
			return 0, io.EOF
		}
		s.cond.Wait()
	}
	n := copy(p, s.ready)
	s.ready = s.ready[n:]
	return n, nil
}

// Write never blocks: the bytes are in flight until delivered.
func (c *SimConn) Write(p []byte) (int, error) {
	c.dlMu.Lock()
	expired := !c.wdl.IsZero() && !time.Now().Before(c.wdl)
	c.dlMu.Unlock()
	if expired {
		return 0, timeoutError{}
	}
	s := c.wr
	s.mu.Lock()
	defer s.mu.Unlock()
	if s.wclosed {
		return 0, errClosed
	}
	if s.rclosed {
		return 0, io.ErrClosedPipe
	}
	s.inflight = append(s.inflight, p...)
	s.Log = append(s.Log, p...)
	s.Writes = append(s.Writes, append([]byte(nil), p...))
	if s.yield {
		s.parked++
		for s.releases == 0 && s.yield {
			s.wcond.Wait()
		}
		if s.releases > 0 {
			s.releases--
		}
		s.parked--
	}
	return len(p), nil
}

// parkedWriters tells how many writers wait to be resumed after their Write.
func (s *stream) parkedWriters() int {
	s.mu.Lock()
	defer s.mu.Unlock()
	return s.parked - s.releases
}

// resumeWriter lets one parked writer return from its Write.
func (s *stream) resumeWriter() {
	s.mu.Lock()
	s.releases++
	s.wcond.Broadcast()
	s.mu.Unlock()
}

// stopYield resumes every parked writer and turns write yields off (end of a session).
func (s *stream) stopYield() {
	s.mu.Lock()
	s.yield = false
	s.wcond.Broadcast()
	s.mu.Unlock()
}

// Close closes both directions of this end.
func (c *SimConn) Close() error {
	c.wr.mu.Lock()
	c.wr.wclosed = true
	c.wr.yield = false
	c.wr.wcond.Broadcast()
	c.wr.cond.Broadcast()
	c.wr.mu.Unlock()
	c.rd.mu.Lock()
	c.rd.rclosed = true
	c.rd.cond.Broadcast()
	c.rd.mu.Unlock()
	return nil
}

type simAddr string

func (a simAddr) Network() string { return "sim" }
func (a simAddr) String() string  { return string(a) }

func (c *SimConn) LocalAddr() net.Addr               { return simAddr(c.label) }
func (c *SimConn) RemoteAddr() net.Addr              { return simAddr(c.label + "-peer") }
func (c *SimConn) SetDeadline(t time.Time) error     { return c.SetWriteDeadline(t) }
func (c *SimConn) SetReadDeadline(t time.Time) error { return nil }
func (c *SimConn) SetWriteDeadline(t time.Time) error {
	c.dlMu.Lock()
	c.wdl = t
	c.dlMu.Unlock()
	return nil
}

// pending tells how many bytes are in flight on the stream.
func (s *stream) pending() int {
	s.mu.Lock()
	defer s.mu.Unlock()
	if s.stalled || s.rclosed {
		return 0
	}
	return len(s.inflight)
}

// deliver moves up to k in-flight bytes to the reader.
func (s *stream) deliver(k int) int {
	s.mu.Lock()
	defer s.mu.Unlock()
	if k > len(s.inflight) {
		k = len(s.inflight)
	}
	s.ready = append(s.ready, s.inflight[:k]...)
	s.inflight = s.inflight[k:]
	s.cond.Broadcast()
	return k
}

// corruptFramed damages one in-flight PostgreSQL message without breaking the
// framing of the messages behind it: either bits of one payload byte are
// flipped, or (tiny >= 0) the length field of the message is set to a value
// below 4. The in-flight bytes must start at a message boundary.
func (s *stream) corruptFramed(pick int, mask byte, tiny int) bool {
	s.mu.Lock()
	defer s.mu.Unlock()
	type frame struct{ start, payload, end int }
	var frames []frame
	for off := 0; off+5 <= len(s.inflight); {
		n := int(s.inflight[off+1])<<24 | int(s.inflight[off+2])<<16 | int(s.inflight[off+3])<<8 | int(s.inflight[off+4])
		if n < 4 || off+1+n > len(s.inflight) {
			break
		}
		frames = append(frames, frame{off, off + 5, off + 1 + n})
		off += 1 + n
	}
	if len(frames) == 0 {
		return false
	}
	f := frames[pick%len(frames)]
	if tiny == -3 {
		// the length field declares far more than will ever arrive
		giant := []uint32{0x10000000, 0x7fffffff, 0x80000000, 0xffffffff}[pick%4]
		s.inflight[f.start+1], s.inflight[f.start+2], s.inflight[f.start+3], s.inflight[f.start+4] = byte(giant>>24), byte(giant>>16), byte(giant>>8), byte(giant)
		return true
	}
	if tiny >= 100 {
		// the message cut down to its first tiny-100 payload bytes, with a matching length field
		keep := min(tiny-100, f.end-f.payload)
		n := keep + 4
		s.inflight[f.start+1], s.inflight[f.start+2], s.inflight[f.start+3], s.inflight[f.start+4] = byte(n>>24), byte(n>>16), byte(n>>8), byte(n)
		s.inflight = append(s.inflight[:f.payload+keep], s.inflight[f.end:]...)
		return true
	}
	if tiny >= 0 {
		s.inflight[f.start+1], s.inflight[f.start+2], s.inflight[f.start+3], s.inflight[f.start+4] = 0, 0, 0, byte(tiny%4)
		return true
	}
	if f.end == f.payload {
		return false
	}
	if tiny == -2 {
		// a 4-byte field set to all ones
		off := f.payload + (pick/7)%(f.end-f.payload)
		for i := off; i < off+4 && i < f.end; i++ {
			s.inflight[i] = 0xff
		}
		return true
	}
	s.inflight[f.payload+(pick/7)%(f.end-f.payload)] ^= mask
	return true
}

// corrupt flips one in-flight byte (hostile peer / broken link).
func (s *stream) corrupt(off int, x byte) bool {
	s.mu.Lock()
	defer s.mu.Unlock()
	if len(s.inflight) == 0 {
		return false
	}
	s.inflight[off%len(s.inflight)] ^= x
	return true
}

// corruptFramedMy is corruptFramed for MySQL framing (3-byte little-endian length, sequence number, payload):
// a bit flip inside the payload of one in-flight packet, or (tiny >= 0) the packet cut down to its first
// `tiny` payload bytes with a matching length field, so that later packets stay framed.
func (s *stream) corruptFramedMy(pick int, mask byte, tiny int) bool {
	s.mu.Lock()
	defer s.mu.Unlock()
	type frame struct{ start, payload, end int }
	var frames []frame
	for off := 0; off+4 <= len(s.inflight); {
		n := int(s.inflight[off]) | int(s.inflight[off+1])<<8 | int(s.inflight[off+2])<<16
		if off+4+n > len(s.inflight) {
			break
		}
		frames = append(frames, frame{off, off + 4, off + 4 + n})
		off += 4 + n
	}
	if len(frames) == 0 {
		return false
	}
	f := frames[pick%len(frames)]
	if tiny >= 100 {
		tiny -= 100
		// statement execution: cut around the ends of its fixed header, NULL bitmap, flag and types
		if f.end > f.payload && s.inflight[f.payload] == 0x17 && tiny%2 == 0 {
			tiny = 9 + (tiny/2)%8
		}
	}
	if tiny >= 0 {
		keep := min(tiny, f.end-f.payload)
		s.inflight[f.start], s.inflight[f.start+1], s.inflight[f.start+2] = byte(keep), 0, 0
		s.inflight = append(s.inflight[:f.payload+keep], s.inflight[f.end:]...)
		return true
	}
	if f.end == f.payload {
		return false
	}
	if tiny == -2 {
		// a 4-byte field set to all ones (biased to the first bytes after the command byte)
		off := f.payload + (pick/7)%min(f.end-f.payload, 12)
		for i := off; i < off+4 && i < f.end; i++ {
			s.inflight[i] = 0xff
		}
		return true
	}
	s.inflight[f.payload+(pick/7)%(f.end-f.payload)] ^= mask
	return true
}

// shortenStartup rewrites the length field of a PostgreSQL startup message in flight to n (4..8) and drops
// the rest of the message beyond 8 bytes, so that the declared length is smaller than the fixed header.
func (s *stream) shortenStartup(n int) bool {
	s.mu.Lock()
	defer s.mu.Unlock()
	if len(s.inflight) < 8 {
		return false
	}
	declared := int(s.inflight[0])<<24 | int(s.inflight[1])<<16 | int(s.inflight[2])<<8 | int(s.inflight[3])
	if declared < 8 || declared > len(s.inflight) {
		return false
	}
	s.inflight[0], s.inflight[1], s.inflight[2], s.inflight[3] = 0, 0, 0, byte(n)
	s.inflight = append(s.inflight[:8], s.inflight[declared:]...)
	return true
}

// inject puts a crafted message in front of what is in flight (which starts at a message boundary when
// deliveries are whole writes): a hostile or confused peer that sends well-framed messages out of place.
func (s *stream) inject(msg []byte) bool {
	s.mu.Lock()
	defer s.mu.Unlock()
	if len(s.inflight) == 0 {
		return false
	}
	s.inflight = append(append([]byte{}, msg...), s.inflight...)
	return true
}

func myPacketBytes(seq byte, payload ...byte) []byte {
	return append([]byte{byte(len(payload)), byte(len(payload) >> 8), byte(len(payload) >> 16), seq}, payload...)
}

func pgMessageBytes(typ byte, payload ...byte) []byte {
	n := len(payload) + 4
	return append([]byte{typ, byte(n >> 24), byte(n >> 16), byte(n >> 8), byte(n)}, payload...)
}

// hostileClientMessages are well-framed client messages that a session did nothing to prepare for.
var hostileClientMessagesMy = [][]byte{
	myPacketBytes(0, 0x17, 0xff, 0xff, 0xff, 0xff, 0x00, 0x01, 0x00, 0x00, 0x00),                                    // execute "the last prepared statement" (MariaDB) when there is none
	myPacketBytes(0, 0x17, 0x09, 0x00, 0x00, 0x00, 0x00, 0x01, 0x00, 0x00, 0x00, 0x00, 0x01, 0xfd, 0x00, 0x01, 'x'), // execute of an unknown statement with a parameter
	myPacketBytes(0, 0x18, 0x01, 0x00, 0x00, 0x00, 0x00, 0x00, 'd', 'a', 't', 'a'),                                  // send long data
	myPacketBytes(0, 0x1c, 0x01, 0x00, 0x00, 0x00, 0x01, 0x00, 0x00, 0x00),                                          // fetch
	myPacketBytes(0, 0x19, 0x01, 0x00),                                                                              // close, short
	myPacketBytes(0, 0x1a),                                                                                          // reset without an id
	myPacketBytes(0, 0x16),                                                                                          // prepare without text
	myPacketBytes(0, 0x03),                                                                                          // query without text
	myPacketBytes(0, 0x04, 't', '1', 0x00, '%'),                                                                     // field list
	myPacketBytes(0, 0x11, 'u', 0x00, 0x00, 'd', 'b', 0x00),                                                         // change user
	myPacketBytes(0, 0x1f),                                                                                          // reset connection
	myPacketBytes(7, 0x0e),                                                                                          // ping with a wrong sequence number
}

var hostileClientMessagesPg = [][]byte{
	pgMessageBytes('B', 0, 'n', 'o', 'n', 'e', 0, 0, 0, 0, 0, 0, 0), // Bind to a statement that was never prepared
	pgMessageBytes('E', 'p', 0, 0, 0, 0, 0),                         // Execute of an unknown portal
	pgMessageBytes('E'),                                             // Execute without a body
	pgMessageBytes('D', 'S', 'x', 0),                                // Describe unknown statement
	pgMessageBytes('D'),                                             // Describe without a body
	pgMessageBytes('C', 'P', 'x', 0),                                // Close unknown portal
	pgMessageBytes('P', 0, 0),                                       // Parse cut after the name
	pgMessageBytes('P', 0, 'S', 'E', 'L', 'E', 'C', 'T', ' ', '1', 0, 0x7f, 0xff), // Parse declaring 32767 parameter types
	pgMessageBytes('Q'),                               // Query without text
	pgMessageBytes('d', 'r', 'o', 'w'),                // CopyData out of place
	pgMessageBytes('f', 'n', 'o', 0),                  // CopyFail out of place
	pgMessageBytes('F', 0, 0, 0, 1, 0, 0, 0, 0, 0, 0), // FunctionCall
	pgMessageBytes('H'),                               // Flush
	pgMessageBytes('S'),                               // Sync out of place
}

// hostileServerMessages are well-framed messages from the database side that nothing asked for.
// (Lengths that declare gigabytes are left out for the same reason as in the bit-flip faults: the proxy
// allocates what a length field declares.)
var hostileServerMessagesMy = [][]byte{
	myPacketBytes(1, 0xfb, '/', 'e', 't', 'c', '/', 'x'), // LOCAL INFILE request
	myPacketBytes(1, 0xfc, 0xff, 0xff),                   // result set with 65535 columns
	myPacketBytes(1, 0x00),                               // OK packet cut after the header
	myPacketBytes(1, 0xff),                               // ERR packet cut after the header
	myPacketBytes(1, 0xfe),                               // EOF packet cut after the header
	myPacketBytes(1, 0x01),                               // one column, then whatever follows
	myPacketBytes(1, 0x00, 0x01, 0x00, 0x00, 0x00, 0xff, 0xff, 0xff, 0xff, 0x00, 0x00, 0x00), // prepare-OK declaring 65535 columns and parameters
}

var hostileServerMessagesPg = [][]byte{
	pgMessageBytes('D', 0, 3, 0, 0, 0, 1, 'x'),                                         // DataRow nobody asked for, cut after its first column
	pgMessageBytes('D', 0x7f, 0xff),                                                    // DataRow declaring 32767 columns
	pgMessageBytes('D'),                                                                // DataRow without a body
	pgMessageBytes('T', 0, 2, 'a', 0, 0, 0, 0, 0, 0, 0),                                // RowDescription cut inside a field
	pgMessageBytes('T', 0x7f, 0xff),                                                    // RowDescription declaring 32767 fields
	pgMessageBytes('t', 0x7f, 0xff),                                                    // ParameterDescription declaring 32767 parameters
	pgMessageBytes('t'),                                                                // ParameterDescription without a body
	pgMessageBytes('G', 0, 0, 1, 0, 0),                                                 // CopyInResponse
	pgMessageBytes('E'),                                                                // ErrorResponse without fields
	pgMessageBytes('Z'),                                                                // ReadyForQuery without a status
	pgMessageBytes('1'), pgMessageBytes('2'), pgMessageBytes('n'), pgMessageBytes('s'), // completions out of place
	pgMessageBytes('C', 'S', 'E', 'L', 'E', 'C', 'T'), // CommandComplete without terminator
}
