package pxw

import (
	"bytes"
	"fmt"
	"strings"
	"testing"
	"time"

	"verif/sim/kernel"
)

// C19, mixed rows: two typed protected columns with their own types and failure policies; rows
// in which one cell was written by the reader and the other by another client (spliced in the
// database, a storage-level event), read in both column orders. Each cell must follow its own
// column's rule - the reader's own value in the declared type, or that column's failure policy -
// whatever the outcome for the neighbouring cell was.

type c19Col struct {
	kind    colKind
	typ     string
	policy  string
	defText string
}

func c19MakeCol(name, envelope, typ, policy string) c19Col {
	c := c19Col{typ: typ, policy: policy, kind: colKind{Name: name, Envelope: envelope, DataType: typ, OnFail: policy}}
	switch typ {
	case "str":
		c.kind.Default, c.defText = "default-text-"+name, "default-text-"+name
	case "bytes":
		c.kind.Default, c.defText = "ZGVmYXVsdC1ieXRlcw==", "default-bytes"
	case "int32":
		c.kind.Default, c.defText = "1234567", "1234567"
	case "int64":
		c.kind.Default, c.defText = "9876543210123", "9876543210123"
	}
	return c
}

func c19Mixed(t *testing.T, plan *kernel.Plan, keepLog bool) *kernel.Result {
	w := kernel.NewWorld(plan, keepLog)
	Bubble(t, plan.Seed, func() {
		start := time.Now()
		rng := kernel.NewRNG(plan.Seed, 0xd19d)
		env := []string{"acrablock", "acrastruct"}[plan.Sw("env")%2]
		c1 := c19MakeCol("c1", env, c19Types[int(plan.Sw("type"))%4], c19Policies[int(plan.Sw("policy"))%4])
		c2 := c19MakeCol("c2", env, c19Types[int(plan.Sw("type2"))%4], c19Policies[int(plan.Sw("policy2"))%4])
		cols := []colKind{c1.kind, c2.kind}
		mysql := plan.Sw("mysql") == 1
		var pw *PgWorld
		var names []string
		var err error
		if mysql {
			pw, names, err = myColWorld(w, plan, rng, cols)
		} else {
			pw, names, err = colWorld(w, plan, rng, cols)
		}
		if err != nil {
			w.Violate("C19", "world-builds", "mixed", err.Error())
			return
		}
		dbms := map[bool]string{false: "pg", true: "mysql"}[mysql]
		binaryRes := plan.Sw("binary") == 1
		insert := func(id int, v1, v2 string) Stmt {
			if mysql {
				return myInsertStmt(names, id, "p", []string{v1, v2}, cols, plan.Sw("params") == 1, 0)
			}
			return insertStmt(names, id, []string{v1, v2}, cols, plan.Sw("params") == 1)
		}
		k := int(plan.Sw("valseed"))
		vals := map[string][2]string{
			owner:    {c19Value(c1.typ, k, 1), c19Value(c2.typ, k+1, 1)},
			stranger: {c19Value(c1.typ, k+2, 2), c19Value(c2.typ, k+3, 2)},
		}
		for i, who := range []string{owner, stranger} {
			v := vals[who]
			v1, v2 := v[0], v[1]
			if plan.Sw("params") != 1 {
				v1, v2 = strings.ReplaceAll(v1, "\x00", "0"), strings.ReplaceAll(v2, "\x00", "0")
				vals[who] = [2]string{v1, v2}
			}
			run := pw.RunSession(who, []Stmt{insert(i+1, v1, v2)})
			if w.Res.Cut {
				return
			}
			if run.Stuck || run.ClientErr != "" || run.Results[0].Err != "" {
				w.Violate("C19", "write-succeeds", dbms+"/mixed", fmt.Sprintf("%s: %q %q %v", who, run.ClientErr, run.Results[0].Err, run.ProxyErrs))
				return
			}
		}
		t1 := pw.DB.Tables["t1"]
		if len(t1.Rows) != 2 {
			w.Violate("C19", "write-succeeds", dbms+"/mixed", fmt.Sprintf("%d rows stored", len(t1.Rows)))
			return
		}
		// splice: row 3 = owner's c1 + stranger's c2, row 4 = stranger's c1 + owner's c2
		t1.Rows = append(t1.Rows,
			[][]byte{[]byte("3"), []byte("p"), t1.Rows[0][2], t1.Rows[1][3]},
			[][]byte{[]byte("4"), []byte("p"), t1.Rows[1][2], t1.Rows[0][3]})
		author := map[int][2]string{3: {owner, stranger}, 4: {stranger, owner}} // row -> who wrote c1, c2
		format := int16(0)
		if binaryRes {
			format = 1
		}
		decode := func(typ string, cell []byte) (string, error) {
			if mysql {
				return string(cell), nil
			}
			return c19Decode(typ, format, cell)
		}
		for _, reader := range []string{owner, stranger} {
			for _, order := range [][2]int{{0, 1}, {1, 0}} {
				for _, rowID := range []int{3, 4} {
					colsOf := [2]c19Col{c1, c2}
					first, second := colsOf[order[0]], colsOf[order[1]]
					list := fmt.Sprintf("id, %s, %s", first.kind.Name, second.kind.Name)
					st := Stmt{SQL: fmt.Sprintf("SELECT %s FROM t1 WHERE id = %d", list, rowID)}
					if binaryRes {
						if mysql {
							st = Stmt{SQL: fmt.Sprintf("SELECT %s FROM t1 WHERE id = ?", list), Extended: true, Args: []interface{}{int64(rowID)}}
						} else {
							st.Extended, st.ResultFormats, st.Describe = true, []int16{0, 1, 1}, true
						}
					}
					run := pw.RunSession(reader, []Stmt{st})
					if w.Res.Cut {
						return
					}
					for _, p := range pw.Panics {
						w.Violate("C14", "no-panic", dbms+"/proxy", p)
					}
					pw.Panics = nil
					res := run.Results[0]
					site := fmt.Sprintf("%s/mixed/%s-%s/%s-%s", dbms, first.typ, first.policy, second.typ, second.policy)
					// which cells can this reader reveal?
					readable := [2]bool{author[rowID][order[0]] == reader, author[rowID][order[1]] == reader}
					wantErr := false
					for i, c := range [2]c19Col{first, second} {
						// (an empty value is stored as it is: nothing to reveal, nothing to fail on)
						if !readable[i] && c.policy == "error" && len(t1.Rows[rowID-1][2+order[i]]) > 0 {
							wantErr = true
						}
					}
					if wantErr {
						if res.Err == "" {
							w.Violate("C19", "policy-error-gives-error", site, fmt.Sprintf("%s reads row %d as (%s): a cell it cannot reveal has the error policy, but the statement returned %d row(s)", reader, rowID, list, len(res.Rows)))
						}
						continue
					}
					if run.ClientErr != "" || res.Err != "" || len(res.Rows) != 1 || len(res.Rows[0]) != 3 {
						w.Violate("C19", "mixed-row-is-served", site, fmt.Sprintf("%s reads row %d as (%s): client error %q, err=%q, rows=%d", reader, rowID, list, run.ClientErr, res.Err, len(res.Rows)))
						continue
					}
					for i, c := range [2]c19Col{first, second} {
						cell := res.Rows[0][1+i]
						colIdx := order[i] // 0 = c1, 1 = c2
						stored := t1.Rows[rowID-1][2+colIdx]
						what := fmt.Sprintf("%s reads row %d as (%s), column %s (%s, policy %q)", reader, rowID, list, c.kind.Name, c.typ, c.policy)
						if readable[i] {
							want := vals[reader][colIdx]
							got, derr := decode(c.typ, cell)
							if derr != nil || got != want {
								w.Violate("C19", "owner-gets-declared-type", site, fmt.Sprintf("%s: wrote %q, decodes %q from %.40q (%v)", what, want, got, cell, derr))
							}
							if !mysql && len(res.Fields) == 3 && res.Fields[1+i].DataTypeOID != c19OID[c.typ] {
								w.Violate("C19", "column-described-as-declared-type", site, fmt.Sprintf("%s: described with oid %d", what, res.Fields[1+i].DataTypeOID))
							}
							continue
						}
						if len(stored) == 0 {
							emptyBytea := !mysql && format == 0 && string(cell) == "\\x" && len(res.Fields) == 3 && res.Fields[1+i].DataTypeOID == 17
							if len(cell) != 0 && !emptyBytea {
								w.Violate("C19", "empty-value-stays-empty", site, fmt.Sprintf("%s: got %.40q for an empty stored cell", what, cell))
							}
							continue
						}
						other := vals[author[rowID][colIdx]][colIdx]
						if len(other) >= 8 && c.typ != "int32" && c.typ != "int64" && bytes.Contains(cell, []byte(other)) {
							w.Violate("C19", "never-partly-revealed", site, fmt.Sprintf("%s: received the other client's plaintext %q", what, other))
						}
						switch c.policy {
						case "default_value":
							got, derr := decode(c.typ, cell)
							if derr != nil || got != c.defText {
								w.Violate("C19", "policy-default-gives-default", site, fmt.Sprintf("%s: got %.40q (decoded %q, %v), want default %q", what, cell, got, derr, c.defText))
							}
						default: // ciphertext, also the default policy
							same := bytes.Equal(cell, stored)
							if !same && !mysql && format == 0 {
								if dec, derr := decodeBytea(cell); derr == nil && bytes.Equal(dec, stored) {
									same = true
								}
							}
							if !same {
								w.Violate("C19", "policy-ciphertext-gives-stored-bytes", site, fmt.Sprintf("%s: got %.40q, stored cell is %.24x..", what, cell, stored))
							}
						}
					}
				}
			}
		}
		w.Probe("mixed-rows")
		w.State(fmt.Sprintf("%s mixed %s/%s %s/%s", dbms, c1.typ, c1.policy, c2.typ, c2.policy))
		w.Res.SimNanos = int64(time.Since(start))
	})
	return w.Finish()
}
