package pxw

import (
	"bytes"
	"fmt"
	acralogging "github.com/cossacklabs/acra/logging"
	"github.com/sirupsen/logrus"
	"os"
	"strings"
	"testing"

	"verif/sim/kernel"
)

func TestDebug(t *testing.T) {
	if os.Getenv("VERIF_DEBUG") == "" {
		t.Skip()
	}
	w := kernel.NewWorld(&kernel.Plan{Seed: 7}, true)
	Bubble(t, 7, func() {
		rng := kernel.NewRNG(7, 1)
		cols := []colKind{{Name: "c1", Envelope: "acrablock"}}
		pw, err := NewPgWorld(w, rng, PgWorldConfig{SchemaYAML: schemaYAML(cols), Clients: []string{owner, stranger}})
		if err != nil {
			t.Fatal(err)
		}
		pw.DB.AddTable("t1", Col{"id", TInt4}, Col{"plain", TText}, Col{"c1", TBytea})
		script := []Stmt{
			{SQL: "INSERT INTO t1 (id, plain, c1) VALUES (1, 'p', 'MARKERMARKERMARKER')"},
			{SQL: "SELECT id, plain, c1 FROM t1 WHERE id = 1"},
			{SQL: "INSERT INTO t1 (id, plain, c1) VALUES ($1, $2, $3)", Extended: true, Params: [][]byte{[]byte("2"), []byte("pp"), []byte("MARK2MARK2MARK2")}},
			{SQL: "SELECT id, plain, c1 FROM t1 WHERE id = 2", Extended: true, ResultFormats: []int16{1}},
		}
		run := pw.RunSession(owner, script)
		fmt.Printf("steps=%d stuck=%v clientErr=%q proxyErrs=%v panics=%v\n", run.Steps, run.Stuck, run.ClientErr, run.ProxyErrs, pw.Panics)
		for _, st := range pw.Stacks {
			fmt.Println(st)
		}
		fmt.Printf("db statements: %q\n db errors: %q\n", pw.DB.Statements, pw.DB.Errors)
		for i, r := range run.Results {
			fmt.Printf("res %d: err=%q ready=%v rows=%q msgs=%v\n", i, r.Err, r.Ready, r.Rows, r.Messages)
		}
		fmt.Printf("toDB: %q\n", run.ToDB.Log)
	})
	for _, l := range w.Res.Log[:min(40, len(w.Res.Log))] {
		fmt.Println(l)
	}
}

func TestDebugReplay(t *testing.T) {
	p := os.Getenv("VERIF_DEBUG_REPLAY")
	if p == "" {
		t.Skip()
	}
	rp, err := kernel.ReadReplay(p)
	if err != nil {
		t.Fatal(err)
	}
	DebugHook = func(pw *PgWorld, run *SessionRun, script []Stmt) {
		fmt.Printf("stuck=%v clientErr=%q proxyErrs=%v\n", run.Stuck, run.ClientErr, run.ProxyErrs)
		fmt.Printf("db statements: %q\n", pw.DB.Statements)
		for _, st := range pw.Stacks {
			fmt.Println("STACK", st)
		}
		for i, r := range run.Results {
			fmt.Printf("res %d %q: err=%q ready=%v rows=%.60q msgs=%v fields=%v\n", i, script[i].SQL, r.Err, r.Ready, r.Rows, r.Messages, r.Fields)
		}
	}
	if os.Getenv("VERIF_DEBUG_LOG") != "" {
		acralogging.SetLogLevel(acralogging.LogDebug)
		logrus.SetOutput(os.Stdout)
	}
	res := map[string]kernel.Property{"C04": C04{}, "C05": C05{}, "C09": C09{}, "C11": C11{}, "C19": C19{}, "C12": C12{}, "C15": C15{}, "C14": C14{}, "C01": C01{}, "C02": C02{}, "C03": C03{}, "C16": C16{}}[rp.Plan.Prop].Run(t, rp.Plan, true)
	for _, v := range res.Violations {
		fmt.Println("VIOL", v.Class(), v.Detail)
	}
}

func TestDebugCensor(t *testing.T) {
	if os.Getenv("VERIF_DEBUG_CENSOR") == "" {
		t.Skip()
	}
	Bubble(t, 1, func() {
		w := kernel.NewWorld(&kernel.Plan{}, false)
		for _, tm := range c05Templates[:5] {
			for _, pat := range append(append([]string{}, tm.patterns...), c05KindPattern[tm.kind]) {
				pat = strings.ReplaceAll(pat, "%%%%", "%%")
				chain := []c05Handler{{Kind: "deny", Patterns: []c05Pat{{Text: pat}}}}
				pw, err := NewPgWorld(w, kernel.NewRNG(1, 1), PgWorldConfig{SchemaYAML: schemaYAML([]colKind{{Name: "c1", Envelope: "acrablock"}}), CensorYAML: c05YAML(chain, false), Clients: []string{owner}})
				if err != nil {
					fmt.Printf("%-70s CONFIG ERROR %v\n", pat, err)
					continue
				}
				var out []string
				for v := 0; v <= 5; v++ {
					q := c05Variant(fmt.Sprintf(tm.text, 4242), v)
					out = append(out, fmt.Sprintf("v%d:%v", v, pw.Censor.HandleQuery(q) != nil))
				}
				fmt.Printf("%-70s blocked: %v\n", pat, out)
				pw.Censor.ReleaseAll()
			}
		}
	})
}

func TestDebugRepeat(t *testing.T) {
	p := os.Getenv("VERIF_DEBUG_REPEAT")
	if p == "" {
		t.Skip()
	}
	rp, err := kernel.ReadReplay(p)
	if err != nil {
		t.Fatal(err)
	}
	prop := map[string]kernel.Property{"C04": C04{}, "C05": C05{}, "C09": C09{}, "C11": C11{}, "C19": C19{}, "C12": C12{}, "C15": C15{}, "C14": C14{}, "C01": C01{}, "C02": C02{}, "C03": C03{}, "C16": C16{}}[rp.Plan.Prop]
	kernel.Warmup(t)
	x := uint64(0)
	for i := 0; i < 2; i++ {
		n := 0
		DebugHook = func(pw *PgWorld, run *SessionRun, script []Stmt) {
			n++
			if n < 2 {
				return
			}
			for i, r := range run.Results {
				fmt.Printf("  session %d res %d %q: err=%q rows=%.50q\n", n, i, script[i].SQL, r.Err, r.Rows)
			}
		}
		res := prop.Run(t, rp.Plan, false)
		DebugHook = nil
		fmt.Printf("run %d: hash=%d violations=%d\n", i, res.LogHash, len(res.Violations))
		q := rp.Plan.Clone()
		q.Seed += uint64(i) + 1
		x ^= prop.Run(t, q, false).LogHash
	}
}

func TestDebugMySQL(t *testing.T) {
	if os.Getenv("VERIF_DEBUG_MYSQL") == "" {
		t.Skip()
	}
	w := kernel.NewWorld(&kernel.Plan{Seed: 7}, true)
	Bubble(t, 7, func() {
		rng := kernel.NewRNG(7, 1)
		cols := []colKind{{Name: "c1", Envelope: "acrablock"}}
		pw, err := NewPgWorld(w, rng, PgWorldConfig{SchemaYAML: schemaYAML(cols), Clients: []string{owner, stranger}, MySQL: true})
		if err != nil {
			t.Fatal(err)
		}
		pw.DB.AddTable("t1", Col{"id", TInt4}, Col{"plain", TText}, Col{"c1", TBytea})
		script := []Stmt{
			{SQL: "INSERT INTO t1 (id, plain, c1) VALUES (1, 'p', 'MARKERMARKERMARKER')"},
			{SQL: "SELECT id, plain, c1 FROM t1 WHERE id = 1"},
			{SQL: "INSERT INTO t1 (id, plain, c1) VALUES (?, ?, ?)", Extended: true, Args: []interface{}{int64(2), "pp", []byte("MARK2MARK2MARK2")}},
			{SQL: "SELECT id, plain, c1 FROM t1 WHERE id = ?", Extended: true, Args: []interface{}{int64(2)}},
			{SQL: "SELECT id FROM nosuch"},
			{SQL: "SELECT id, plain, c1 FROM t1"},
		}
		run := pw.RunSession(owner, script)
		fmt.Printf("steps=%d stuck=%v clientErr=%q proxyErrs=%v panics=%v\n", run.Steps, run.Stuck, run.ClientErr, run.ProxyErrs, pw.Panics)
		for _, st := range pw.Stacks {
			fmt.Println(st)
		}
		fmt.Printf("db statements: %q\n db errors: %q\n", pw.DB.Statements, pw.DB.Errors)
		for i, r := range run.Results {
			fmt.Printf("res %d: err=%q ready=%v rows=%q types=%v\n", i, r.Err, r.Ready, r.Rows, r.MyTypes)
		}
		for _, row := range pw.DB.Tables["t1"].Rows {
			fmt.Printf("stored: %.60q\n", row)
		}
	})
}

func TestDebugMySQLBig(t *testing.T) {
	if os.Getenv("VERIF_DEBUG_MYSQL_BIG") == "" {
		t.Skip()
	}
	w := kernel.NewWorld(&kernel.Plan{Seed: 7}, false)
	w.MaxSteps = 1 << 40
	Bubble(t, 7, func() {
		rng := kernel.NewRNG(7, 1)
		cols := []colKind{{Name: "c1", Envelope: "acrablock"}}
		pw, err := NewPgWorld(w, rng, PgWorldConfig{SchemaYAML: schemaYAML(cols), Clients: []string{owner, stranger}, MySQL: true})
		if err != nil {
			t.Fatal(err)
		}
		pw.maxSteps = 1 << 30
		t2 := pw.DB.AddTable("t2", Col{"id", TInt4}, Col{"note", TText})
		for _, n := range []int{0xffffff - 20, 0xffffff - 5, 0xffffff, 0xffffff + 10} {
			big := bytes.Repeat([]byte("v"), n)
			t2.Rows = [][][]byte{{[]byte("1"), big}}
			script := []Stmt{
				{SQL: "SELECT id, note FROM t2 WHERE id = 1"},
				{SQL: "SELECT id, note FROM t2 WHERE id = ?", Extended: true, Args: []interface{}{int64(1)}},
				{SQL: "INSERT INTO t2 (id, note) VALUES (?, ?)", Extended: true, Args: []interface{}{int64(2), string(big)}},
				{SQL: "SELECT id FROM t2 WHERE id = 2"},
			}
			run := pw.RunSession(owner, script)
			fmt.Printf("n=%d steps=%d stuck=%v clientErr=%q proxyErrs=%v panics=%v\n", n, run.Steps, run.Stuck, run.ClientErr, run.ProxyErrs, pw.Panics)
			for i, r := range run.Results {
				l := -1
				if len(r.Rows) > 0 && len(r.Rows[0]) > 1 {
					l = len(r.Rows[0][1])
				}
				fmt.Printf("  res %d: err=%q ready=%v rows=%d len=%d\n", i, r.Err, r.Ready, len(r.Rows), l)
			}
			fmt.Printf("  relay c->db identical=%v db->c identical=%v stored rows=%d\n", bytes.Equal(run.FromCl.Log, run.ToDB.Log), bytes.Equal(run.FromDB.Log, run.ToClient.Log), len(t2.Rows))
		}
	})
}
