package pxw

import (
	"fmt"
	"os"
	"testing"

	"verif/sim/kernel"
)

func TestDebug(t *testing.T) {
	if os.Getenv("VERIF_DEBUG") == "" {
		t.Skip()
	}
	w := kernel.NewWorld(&kernel.Plan{Seed: 7}, true)
	Bubble(t, 7, func() {
		rng := kernel.NewRNG(7, 1)
		cols := []colKind{{Name: "c1", Envelope: "acrablock"}}
		pw, err := NewPgWorld(w, rng, PgWorldConfig{SchemaYAML: schemaYAML(cols), Clients: []string{owner, stranger}})
		if err != nil {
			t.Fatal(err)
		}
		pw.DB.AddTable("t1", Col{"id", TInt4}, Col{"plain", TText}, Col{"c1", TBytea})
		script := []Stmt{
			{SQL: "INSERT INTO t1 (id, plain, c1) VALUES (1, 'p', 'MARKERMARKERMARKER')"},
			{SQL: "SELECT id, plain, c1 FROM t1 WHERE id = 1"},
			{SQL: "INSERT INTO t1 (id, plain, c1) VALUES ($1, $2, $3)", Extended: true, Params: [][]byte{[]byte("2"), []byte("pp"), []byte("MARK2MARK2MARK2")}},
			{SQL: "SELECT id, plain, c1 FROM t1 WHERE id = 2", Extended: true, ResultFormats: []int16{1}},
		}
		run := pw.RunSession(owner, script)
		fmt.Printf("steps=%d stuck=%v clientErr=%q proxyErrs=%v panics=%v\n", run.Steps, run.Stuck, run.ClientErr, run.ProxyErrs, pw.Panics)
		for _, st := range pw.Stacks {
			fmt.Println(st)
		}
		fmt.Printf("db statements: %q\n db errors: %q\n", pw.DB.Statements, pw.DB.Errors)
		for i, r := range run.Results {
			fmt.Printf("res %d: err=%q ready=%v rows=%q msgs=%v\n", i, r.Err, r.Ready, r.Rows, r.Messages)
		}
		fmt.Printf("toDB: %q\n", run.ToDB.Log)
	})
	for _, l := range w.Res.Log[:min(40, len(w.Res.Log))] {
		fmt.Println(l)
	}
}
