package pxw

import (
	"context"
	"errors"
	"fmt"
	"net"
	"os"
	"runtime/debug"
	"strings"
	"sync"
	"sync/atomic"
	"testing"
	"testing/cryptotest"
	"testing/synctest"
	"time"

	acracensor "github.com/cossacklabs/acra/acra-censor"
	"github.com/cossacklabs/acra/crypto"
	"github.com/cossacklabs/acra/decryptor/base"
	acramysql "github.com/cossacklabs/acra/decryptor/mysql"
	"github.com/cossacklabs/acra/decryptor/postgresql"
	"github.com/cossacklabs/acra/encryptor/base/config"
	"github.com/cossacklabs/acra/logging"
	"github.com/cossacklabs/acra/poison"
	"github.com/cossacklabs/acra/pseudonymization"
	tokenCommon "github.com/cossacklabs/acra/pseudonymization/common"
	tokenStorage "github.com/cossacklabs/acra/pseudonymization/storage"
	"github.com/cossacklabs/acra/sqlparser"
	myDialect "github.com/cossacklabs/acra/sqlparser/dialect/mysql"
	pgDialect "github.com/cossacklabs/acra/sqlparser/dialect/postgresql"
	"github.com/jackc/pgx/v5/pgproto3"
	log "github.com/sirupsen/logrus"

	"verif/sim/kernel"
	"verif/sim/ksw"
)

// Stmt is one client statement of a session script.
type Stmt struct {
	SQL           string
	Extended      bool
	Params        [][]byte
	ParamFormats  []int16
	ResultFormats []int16
	Describe      bool // send Describe(portal) in the extended protocol
	Name          string
	ParamOIDs     []uint32      // parameter types declared in Parse
	Args          []interface{} // MySQL: arguments of a prepared statement (int64, string, []byte, nil)
	NoParse       bool          // PostgreSQL: execute the statement prepared earlier under Name (no Parse message)
	IdleBefore    time.Duration // the client stays silent for this long before sending the statement
	Reexec        bool          // PostgreSQL: the (named) statement is bound and executed a second time without a new Parse
	FetchRows     int           // PostgreSQL: the portal is executed with this row limit, again and again until it is complete (driver fetch size)
	Pre           []string      // MySQL: statements sent in the text protocol before this one (their answers must be OK)
	PrepareOnly   bool          // MySQL (own client): COM_STMT_PREPARE only
	Direct        bool          // MySQL (own client): COM_STMT_EXECUTE with statement id -1 (MariaDB: the last prepared statement)
	rerun         bool
	Tag           string // harness bookkeeping
}

// StmtResult is what the client saw for one statement.
type StmtResult struct {
	Fields    []pgproto3.FieldDescription
	Rows      [][][]byte
	Err       string
	ErrCode   string
	Ready     bool
	ParamOIDs []uint32
	Messages  []string // type names of every message received, in order
	MyTypes   []string // MySQL: database type names of the result columns
	Raw       [][]byte // encoded form of every message received
}

// PgWorld is one simulated deployment: keystore, token store, proxy settings,
// database.
type PgWorld struct {
	W            *kernel.World
	DB           *PgDB
	Disk         *ksw.Disk
	KS           *ksw.Handle
	Factory      base.ProxyFactory
	Schema       config.TableSchemaStore
	Censor       *acracensor.AcraCensor
	Poison       *poison.CallbackStorage
	Tokenizer    tokenCommon.Pseudoanonymizer
	Panics       []string
	Stacks       []string
	runRef       *SessionRunRef
	delivered    map[string]int
	chunkMod     int // 0: whole, 1: small chunks, 2: byte by byte
	maxSteps     int
	mysql        bool
	ksWorld      *kernel.World
	keyFaultArms int
	tokenFault   *faultyTokenStorage
	// WriteYield: the proxy's writes become scheduling points (see stream.yield)
	WriteYield bool
}

const keyFaultOp = 7777

// ArmKeyFault makes the nth storage call of the key store from now on fail with an I/O error, until DisarmKeyFault.
func (pw *PgWorld) ArmKeyFault(nth int) {
	pw.keyFaultArms++
	id := keyFaultOp + pw.keyFaultArms
	pw.ksWorld.Plan.Faults = append(pw.ksWorld.Plan.Faults, kernel.Fault{OpID: id, Nth: nth, Kind: kernel.FErr, Arg: 5})
	pw.ksWorld.BeginOp(0, kernel.Op{ID: id})
}

// DisarmKeyFault ends the window opened by ArmKeyFault.
func (pw *PgWorld) DisarmKeyFault() { pw.ksWorld.EndOp(0, "") }

// KeyFaultFired tells whether the armed key store fault was injected.
func (pw *PgWorld) KeyFaultFired() bool {
	return pw.ksWorld != nil && pw.ksWorld.Res.Fired[kernel.FErr] > 0
}

// faultyTokenStorage fails one call into the token storage with an I/O error.
type faultyTokenStorage struct {
	tokenCommon.TokenStorage
	calls  atomic.Int64
	failAt int64
	fired  atomic.Bool
}

var errTokenStoreIO = errors.New("token storage: connection refused")

func (f *faultyTokenStorage) gate() error {
	if f.calls.Add(1) == f.failAt {
		f.fired.Store(true)
		return errTokenStoreIO
	}
	return nil
}

func (f *faultyTokenStorage) Save(id []byte, ctx tokenCommon.TokenContext, data []byte) error {
	if err := f.gate(); err != nil {
		return err
	}
	return f.TokenStorage.Save(id, ctx, data)
}

func (f *faultyTokenStorage) Get(id []byte, ctx tokenCommon.TokenContext) ([]byte, error) {
	if err := f.gate(); err != nil {
		return nil, err
	}
	return f.TokenStorage.Get(id, ctx)
}

// TokenFaultFired tells whether the token storage fault was injected.
func (pw *PgWorld) TokenFaultFired() bool { return pw.tokenFault != nil && pw.tokenFault.fired.Load() }

// PgWorldConfig configures NewPgWorld.
type PgWorldConfig struct {
	SchemaYAML  string
	CensorYAML  string
	Clients     []string
	ChunkMode   int
	PoisonCalls base.Callback
	KeyFaults   bool
	// KeyFaultNth > 0: the Nth storage call of the key store after the world is set up fails with an I/O error
	KeyFaultNth int
	// MySQL: the deployment is AcraServer in MySQL mode in front of the simulated MySQL server.
	MySQL          bool
	MyDeprecateEOF bool
	// TokenFaultNth > 0: the Nth call into the token storage fails with an I/O error
	TokenFaultNth int
	// KeystoreV2: the key store is keystore v2 (key rings on the simulated back end) instead of v1
	KeystoreV2 bool
	// StrictParser: Acra's SQL parser in strict mode (a statement it cannot parse is an error, not a pass-through)
	StrictParser bool
}

type session struct {
	ctx    context.Context
	client net.Conn
	db     net.Conn
	state  interface{}
	mu     sync.Mutex
	data   map[string]interface{}
}

func (s *session) Context() context.Context       { return s.ctx }
func (s *session) ClientConnection() net.Conn     { return s.client }
func (s *session) DatabaseConnection() net.Conn   { return s.db }
func (s *session) ProtocolState() interface{}     { return s.state }
func (s *session) SetProtocolState(v interface{}) { s.state = v }
func (s *session) GetData(k string) (interface{}, bool) {
	s.mu.Lock()
	defer s.mu.Unlock()
	v, ok := s.data[k]
	return v, ok
}
func (s *session) SetData(k string, v interface{}) { s.mu.Lock(); s.data[k] = v; s.mu.Unlock() }
func (s *session) DeleteData(k string)             { s.mu.Lock(); delete(s.data, k); s.mu.Unlock() }
func (s *session) HasData(k string) bool           { _, ok := s.GetData(k); return ok }

// Bubble runs body in a synctest bubble with deterministic randomness.
func Bubble(t *testing.T, seed uint64, body func()) {
	cryptotest.SetGlobalRandom(t, seed)
	driverLeak.Store(false)
	defer func() {
		// helper goroutines of a client driver that panicked stay parked (see driverLeak): the bubble
		// reports them as a deadlock when its main goroutine is done; nothing else is tolerated here
		if r := recover(); r != nil {
			if driverLeak.Load() && strings.Contains(fmt.Sprint(r), "deadlock") {
				return
			}
			panic(r)
		}
	}()
	synctest.Test(t, func(t *testing.T) { body() })
}

// NewPgWorld builds the deployment. Must be called inside the bubble.
func NewPgWorld(w *kernel.World, rng *kernel.RNG, cfg PgWorldConfig) (*PgWorld, error) {
	sqlparser.SetDefaultDialect(pgDialect.NewPostgreSQLDialect())
	pw := &PgWorld{W: w, DB: NewPgDB(), chunkMod: cfg.ChunkMode, maxSteps: 40000, mysql: cfg.MySQL}
	if cfg.MySQL {
		sqlparser.SetDefaultDialect(myDialect.NewMySQLDialect())
		pw.DB.MySQL, pw.DB.MyDeprecateEOF = true, cfg.MyDeprecateEOF
	}
	pw.Disk = ksw.NewDisk(map[bool]int{false: 1, true: 2}[cfg.KeystoreV2], rng)
	ksPlan := &kernel.Plan{}
	if cfg.KeyFaultNth > 0 {
		// armed by BeginOp(keyFaultOp) once the world is set up
		ksPlan.Faults = []kernel.Fault{{OpID: keyFaultOp, Nth: cfg.KeyFaultNth, Kind: kernel.FErr, Arg: 5}}
	}
	scratch := kernel.NewWorld(ksPlan, false)
	scratch.MaxSteps = 1 << 60
	pw.ksWorld = scratch
	h, err := ksw.Open(scratch, 0, pw.Disk, 0)
	if err != nil {
		return nil, err
	}
	pw.KS = h
	for _, c := range cfg.Clients {
		for _, kind := range []string{ksw.KStoragePair, ksw.KStorageSym, ksw.KHmac} {
			if err := h.Generate(kind, []byte(c)); err != nil {
				return nil, fmt.Errorf("generate %s for %s: %w", kind, c, err)
			}
		}
	}
	if err := crypto.InitRegistry(h.KS); err != nil {
		return nil, err
	}
	schema, err := config.MapTableSchemaStoreFromConfig([]byte(cfg.SchemaYAML), cfg.MySQL)
	if err != nil {
		return nil, fmt.Errorf("schema config: %w", err)
	}
	pw.Schema = schema
	// as acra-server does: an empty censor admits everything
	pw.Censor = acracensor.NewAcraCensor()
	if cfg.CensorYAML != "" {
		if err := pw.Censor.LoadConfiguration([]byte(cfg.CensorYAML)); err != nil {
			return nil, fmt.Errorf("censor config: %w", err)
		}
	}
	var censor acracensor.AcraCensorInterface = pw.Censor
	memStore, err := tokenStorage.NewMemoryTokenStorage()
	if err != nil {
		return nil, err
	}
	var store tokenCommon.TokenStorage = memStore
	var faultyStore *faultyTokenStorage
	if cfg.TokenFaultNth > 0 {
		faultyStore = &faultyTokenStorage{TokenStorage: store, failAt: int64(cfg.TokenFaultNth)}
		store = faultyStore
		pw.tokenFault = faultyStore
	}
	enc, err := tokenStorage.NewSCellEncryptor(h.KS)
	if err != nil {
		return nil, err
	}
	tokenizer, err := pseudonymization.NewPseudoanonymizer(tokenStorage.WrapStorageWithEncryption(store, enc))
	if err != nil {
		return nil, err
	}
	pw.Tokenizer = tokenizer
	pw.Poison = poison.NewCallbackStorage()
	if cfg.PoisonCalls != nil {
		pw.Poison.AddCallback(cfg.PoisonCalls)
	}
	parserMode := sqlparser.ModeDefault
	if cfg.StrictParser {
		parserMode = sqlparser.ModeStrict
	}
	setting := base.NewProxySetting(sqlparser.New(parserMode), schema, h.KS, nil, censor, pw.Poison)
	if cfg.MySQL {
		pw.Factory, err = acramysql.NewProxyFactory(setting, h.KS, tokenizer)
	} else {
		pw.Factory, err = postgresql.NewProxyFactory(setting, h.KS, tokenizer)
	}
	if cfg.KeyFaultNth > 0 {
		h.Reset() // keys are read from storage again
		scratch.BeginOp(0, kernel.Op{ID: keyFaultOp})
	}
	return pw, err
}

// SessionRun is the record of one client session through the proxy.
type SessionRun struct {
	Results   []StmtResult
	ToDB      *stream // proxy -> db
	FromDB    *stream // db -> proxy
	ToClient  *stream // proxy -> client
	FromCl    *stream // client -> proxy
	Steps     int
	Stuck     bool
	ClientErr string
	ProxyErrs []string
}

// DebugHook, when set, is called after every session (debugging aid).
var DebugHook func(pw *PgWorld, run *SessionRun, script []Stmt)

// RunSession runs one scripted client session through a fresh proxy instance
// against the world's database. Deliveries are chosen from the tape.
func (pw *PgWorld) RunSession(clientID string, script []Stmt) *SessionRun {
	w := pw.W
	cEnd, pcEnd := NewConnPair("client", "proxy-c")
	pdEnd, dEnd := NewConnPair("proxy-d", "db")
	run := &SessionRun{ToDB: pdEnd.wr, FromDB: dEnd.wr, ToClient: pcEnd.wr, FromCl: cEnd.wr}
	if pw.W.Plan.Sw("wyield") == 1 {
		pw.WriteYield = true
	}
	if pw.WriteYield {
		pcEnd.wr.yield, pdEnd.wr.yield = true, true
		defer pcEnd.wr.stopYield()
		defer pdEnd.wr.stopYield()
	}
	run.Results = make([]StmtResult, len(script))
	if n := int(pw.W.Plan.Sw("idlenth")); n > 1 {
		// every n-th statement follows a silence longer than the proxy's network timeout
		script = append([]Stmt{}, script...)
		for i := range script {
			if i%n == n-1 && script[i].IdleBefore == 0 {
				script[i].IdleBefore = 61*time.Second + time.Duration(i)*time.Second
			}
		}
	}
	if pw.W.Plan.Sw("pgreexec") == 1 && !pw.mysql {
		// drivers that keep prepared statements (pgx, JDBC after a few executions) parse once under a name and
		// then only bind and execute: every prepared SELECT with parameters is executed a second time that way
		script = append([]Stmt{}, script...)
		for i := range script {
			st := &script[i]
			if st.Extended && len(st.Params) > 0 && st.Name == "" && !st.NoParse && strings.HasPrefix(strings.ToUpper(strings.TrimSpace(st.SQL)), "SELECT") {
				st.Name, st.Reexec = fmt.Sprintf("rx%d", i), true
			}
		}
	}
	if n := int(pw.W.Plan.Sw("fetch")); n > 0 && !pw.mysql {
		// a driver with a fetch size: prepared SELECTs are executed with a row limit until the portal is complete
		script = append([]Stmt{}, script...)
		for i := range script {
			st := &script[i]
			if st.Extended && strings.HasPrefix(strings.ToUpper(strings.TrimSpace(st.SQL)), "SELECT") {
				st.FetchRows = n
			}
		}
	}
	if pw.runRef != nil {
		pw.runRef.toClient = run.ToClient
	}
	done := make(chan struct{}, 8)
	finished := 0
	const actors = 3
	// database
	go func() {
		defer func() { dEnd.Close(); done <- struct{}{} }()
		defer pw.recoverActor("database")
		if pw.mysql {
			_ = pw.DB.ServeMySQL(dEnd)
			return
		}
		_ = pw.DB.Serve(dEnd)
	}()
	synctest.Wait() // actors are started one at a time: no two goroutines ever run in parallel
	// proxy
	logger := log.NewEntry(log.StandardLogger())
	ctx := logging.SetLoggerToContext(context.Background(), logger)
	sess := &session{client: pcEnd, db: pdEnd, data: map[string]interface{}{}}
	ctx = base.SetClientSessionToContext(ctx, sess)
	sess.ctx = ctx
	go func() {
		defer func() { done <- struct{}{} }()
		proxy, err := pw.Factory.New([]byte(clientID), sess)
		if err != nil {
			run.ProxyErrs = append(run.ProxyErrs, "factory: "+err.Error())
			pcEnd.Close()
			pdEnd.Close()
			return
		}
		accessContext := base.NewAccessContext(base.WithClientID([]byte(clientID)))
		proxy.AddClientIDObserver(accessContext)
		sess.ctx = base.SetAccessContextToContext(sess.ctx, accessContext)
		errCh := make(chan base.ProxyError)
		go func() {
			defer pw.recoverProxy("ProxyClientConnection", errCh)
			proxy.ProxyClientConnection(sess.ctx, errCh)
		}()
		go func() {
			defer pw.recoverProxy("ProxyDatabaseConnection", errCh)
			proxy.ProxyDatabaseConnection(sess.ctx, errCh)
		}()
		perr := <-errCh
		if e := perr.Unwrap(); e != nil {
			run.ProxyErrs = append(run.ProxyErrs, e.Error())
		}
		pcEnd.Close()
		pdEnd.Close()
		perr2 := <-errCh
		if e := perr2.Unwrap(); e != nil {
			run.ProxyErrs = append(run.ProxyErrs, e.Error())
		}
	}()
	synctest.Wait()
	// client
	go func() {
		defer func() { cEnd.Close(); done <- struct{}{} }()
		defer pw.recoverActor("client")
		play := runPgClient
		if pw.mysql {
			play = runMyClient
			if pw.W.Plan.Sw("rawmy") == 1 {
				// the second MySQL client: CLIENT_DEPRECATE_EOF when offered, re-execution without types
				opts := myRawOpts{deprecateEOF: pw.DB.MyDeprecateEOF, reexec: pw.W.Plan.Sw("reexec") == 1, longData: pw.W.Plan.Sw("longdata") == 1}
				play = func(conn net.Conn, script []Stmt, results []StmtResult) error {
					return runMyRawClient(conn, script, results, opts)
				}
			}
		}
		if err := play(cEnd, script, run.Results); err != nil {
			run.ClientErr = err.Error()
		}
	}()
	// driver: one delivery per quiescence
	streams := []*stream{cEnd.wr, pdEnd.wr, dEnd.wr, pcEnd.wr}
	for run.Steps = 0; run.Steps < pw.maxSteps; run.Steps++ {
		synctest.Wait()
		for {
			select {
			case <-done:
				finished++
				continue
			default:
			}
			break
		}
		var en []*stream
		for _, s := range streams {
			if s.pending() > 0 {
				en = append(en, s)
			}
		}
		var parked []*stream
		if pw.WriteYield {
			for _, s := range streams {
				if s.parkedWriters() > 0 {
					parked = append(parked, s)
				}
			}
		}
		picked := -1
		if len(parked) > 0 {
			// either a delivery or letting a writer go on after its Write
			k := w.Choose(len(en) + len(parked))
			if k >= len(en) {
				ps := parked[k-len(en)]
				ps.resumeWriter()
				w.Event(0, "resume-writer "+ps.name, "")
				continue
			}
			picked = k
		}
		if len(en) == 0 {
			if finished < actors {
				// nobody can move and not everybody is done: either waiting
				// for EOF propagation (closes wake readers by themselves) or stuck
				if clientIdle.Load() {
					// the client is deliberately silent: let (fake) time pass
					time.Sleep(time.Second)
					continue
				}
				time.Sleep(time.Millisecond)
				synctest.Wait()
				for {
					select {
					case <-done:
						finished++
						continue
					default:
					}
					break
				}
				stillNone := true
				for _, s := range streams {
					if s.pending() > 0 {
						stillNone = false
					}
				}
				if stillNone && finished < actors {
					run.Stuck = true
					cEnd.Close()
					pcEnd.Close()
					pdEnd.Close()
					dEnd.Close()
					synctest.Wait()
				}
				if stillNone {
					break
				}
				continue
			}
			break
		}
		if picked < 0 {
			picked = w.Choose(len(en))
		}
		s := en[picked]
		pw.applyStreamFaults(s, []*SimConn{cEnd, pcEnd, pdEnd, dEnd})
		n := s.pending()
		if n == 0 {
			continue
		}
		k := n
		switch pw.chunkMod {
		case 1:
			k = 1 + w.Choose(min(n, 9))
		case 2:
			k = 1
		case 3:
			if w.Choose(3) == 0 {
				k = 1 + w.Choose(n)
			}
		}
		got := s.deliver(k)
		w.Event(0, "deliver "+s.name, fmt.Sprintf("%d/%d", got, n))
		time.Sleep(time.Microsecond)
	}
	if DebugHook != nil {
		DebugHook(pw, run, script)
	}
	if run.Steps >= pw.maxSteps {
		w.Res.Cut = true
		cEnd.Close()
		pcEnd.Close()
		pdEnd.Close()
		dEnd.Close()
		synctest.Wait()
	}
	return run
}

// applyStreamFaults applies the plan's network faults to a stream that is
// about to deliver: "corrupt" flips bits of one in-flight byte (Arg = offset<<8
// | mask), "cut" closes the connection (EOF for the reader, error for the writer).
func (pw *PgWorld) applyStreamFaults(s *stream, conns []*SimConn) {
	w := pw.W
	if pw.delivered == nil {
		pw.delivered = map[string]int{}
	}
	pw.delivered[s.name]++
	for i := range w.Plan.Faults {
		f := &w.Plan.Faults[i]
		if f.Site != s.name || f.Nth != pw.delivered[s.name] {
			continue
		}
		switch f.Kind {
		case "corrupt-payload", "tiny-length", "ones-field", "truncate-message", "giant-length":
			if s.name == "client->proxy-c" && pw.delivered[s.name] == 1 && !pw.mysql {
				// the startup message has no type byte: its own length field is set to 4..8 (the protocol
				// version stays) and the message is cut accordingly
				if f.Kind == "tiny-length" && s.shortenStartup(4+int(f.Arg)%5) {
					w.Res.Fired["startup-length"]++
					w.Event(0, "FAULT startup-length "+s.name, fmt.Sprint(4+int(f.Arg)%5))
				}
				continue
			}
			tiny := -1
			if f.Kind == "tiny-length" {
				tiny = int(f.Arg) % 4
			} else if f.Kind == "ones-field" {
				tiny = -2
			} else if f.Kind == "giant-length" {
				if pw.mysql {
					continue // a MySQL packet cannot declare more than 16 MiB
				}
				tiny = -3
			} else if f.Kind == "truncate-message" {
				tiny = 100 + int(f.Arg>>20)%48
			}
			hit := false
			if pw.mysql {
				hit = s.corruptFramedMy(int(f.Arg>>8), byte(f.Arg)|1, tiny)
			} else {
				hit = s.corruptFramed(int(f.Arg>>8), byte(f.Arg)|1, tiny)
			}
			if hit {
				w.Res.Fired[f.Kind]++
				w.Event(0, "FAULT "+f.Kind+" "+s.name, fmt.Sprintf("pick=%d mask=%02x", f.Arg>>8, byte(f.Arg)|1))
			}
		case "corrupt":
			if s.corrupt(int(f.Arg>>8), byte(f.Arg)|1) {
				w.Res.Fired["corrupt-byte"]++
				w.Event(0, "FAULT corrupt "+s.name, fmt.Sprintf("off=%d mask=%02x", f.Arg>>8, byte(f.Arg)|1))
			}
		case "inject":
			corpus := hostileClientMessagesPg
			if pw.mysql {
				corpus = hostileClientMessagesMy
			}
			if s.name == "db->proxy-d" {
				corpus = hostileServerMessagesPg
				if pw.mysql {
					corpus = hostileServerMessagesMy
				}
			}
			if pw.delivered[s.name] > 1 && s.inject(corpus[int(f.Arg)%len(corpus)]) {
				w.Res.Fired["injected-message"]++
				w.Event(0, "FAULT inject "+s.name, fmt.Sprint(int(f.Arg)%len(corpus)))
			}
		case "cut":
			for _, c := range conns {
				if c.wr == s {
					c.Close()
				}
			}
			w.Res.Fired["connection-cut"]++
			w.Event(0, "FAULT cut "+s.name, "")
		}
	}
}

func (pw *PgWorld) recoverActor(who string) {
	if r := recover(); r != nil {
		pw.Panics = append(pw.Panics, fmt.Sprintf("%s: %v", who, r))
		if os.Getenv("VERIF_ACTOR_STACK") != "" {
			fmt.Fprintf(os.Stderr, "ACTOR PANIC %s: %v\n%s\n", who, r, debug.Stack())
		}
	}
}

func (pw *PgWorld) recoverProxy(who string, errCh chan<- base.ProxyError) {
	if r := recover(); r != nil {
		pw.Panics = append(pw.Panics, fmt.Sprintf("%s: %v", who, r))
		pw.Stacks = append(pw.Stacks, string(debug.Stack()))
		errCh <- base.NewClientProxyError(fmt.Errorf("panic in %s: %v", who, r))
	}
}

// clientIdle is set while the scripted client is deliberately silent (the driver lets time pass then).
var clientIdle atomic.Bool

func clientIdles(d time.Duration) {
	if d <= 0 {
		return
	}
	clientIdle.Store(true)
	time.Sleep(d)
	clientIdle.Store(false)
}

// runPgClient plays a script over the client end of the connection.
func runPgClient(conn net.Conn, script []Stmt, results []StmtResult) error {
	fe := pgproto3.NewFrontend(conn, conn)
	fe.Send(&pgproto3.StartupMessage{ProtocolVersion: pgproto3.ProtocolVersionNumber, Parameters: map[string]string{"user": "sim", "database": "sim"}})
	if err := fe.Flush(); err != nil {
		return err
	}
	for {
		msg, err := safeReceive(fe.Receive)
		if err != nil {
			return fmt.Errorf("startup: %w", err)
		}
		if _, ok := msg.(*pgproto3.ReadyForQuery); ok {
			break
		}
		if e, ok := msg.(*pgproto3.ErrorResponse); ok {
			return fmt.Errorf("startup error: %s", e.Message)
		}
	}
	for i := 0; i < len(script); i++ {
		st := script[i]
		res := &results[i]
		if st.rerun {
			// second execution of the named statement: Bind and Execute only, its answer is the result
			*res = StmtResult{}
			st.NoParse = true
		} else {
			clientIdles(st.IdleBefore)
		}
		if st.Extended {
			if !st.NoParse {
				fe.Send(&pgproto3.Parse{Name: st.Name, Query: st.SQL, ParameterOIDs: st.ParamOIDs})
			}
			if st.Describe {
				fe.Send(&pgproto3.Describe{ObjectType: 'S', Name: st.Name})
			}
			fe.Send(&pgproto3.Bind{PreparedStatement: st.Name, Parameters: st.Params, ParameterFormatCodes: st.ParamFormats, ResultFormatCodes: st.ResultFormats})
			if st.Describe {
				fe.Send(&pgproto3.Describe{ObjectType: 'P'})
			}
			if st.FetchRows > 0 {
				// one pipeline: as many limited executions as a result of up to 8 rows needs, then Sync
				for k := 0; k < 8/st.FetchRows+2; k++ {
					fe.Send(&pgproto3.Execute{MaxRows: uint32(st.FetchRows)})
				}
			} else {
				fe.Send(&pgproto3.Execute{})
			}
			fe.Send(&pgproto3.Sync{})
		} else {
			fe.Send(&pgproto3.Query{String: st.SQL})
		}
		if err := fe.Flush(); err != nil {
			return err
		}
		for {
			msg, err := safeReceive(fe.Receive)
			if err != nil {
				return fmt.Errorf("statement %d: %w", i, err)
			}
			res.Messages = append(res.Messages, fmt.Sprintf("%T", msg))
			if enc, eerr := msg.Encode(nil); eerr == nil {
				res.Raw = append(res.Raw, enc)
			}
			switch m := msg.(type) {
			case *pgproto3.RowDescription:
				res.Fields = append([]pgproto3.FieldDescription(nil), m.Fields...)
				for k := range res.Fields {
					res.Fields[k].Name = append([]byte(nil), res.Fields[k].Name...)
				}
			case *pgproto3.ParameterDescription:
				res.ParamOIDs = append([]uint32(nil), m.ParameterOIDs...)
			case *pgproto3.DataRow:
				row := make([][]byte, len(m.Values))
				for k, v := range m.Values {
					if v != nil {
						row[k] = append([]byte{}, v...)
					}
				}
				res.Rows = append(res.Rows, row)
			case *pgproto3.ErrorResponse:
				res.Err, res.ErrCode = m.Message, m.Code
			case *pgproto3.ReadyForQuery:
				res.Ready = true
			}
			if res.Ready {
				break
			}
		}
		if st.Reexec && !st.rerun && res.Err == "" {
			// another statement goes through the proxy before the second execution
			fe.Send(&pgproto3.Query{String: "SELECT id FROM t1 WHERE id = -1"})
			if err := fe.Flush(); err != nil {
				return err
			}
			for {
				msg, err := safeReceive(fe.Receive)
				if err != nil {
					return fmt.Errorf("statement %d (statement in between): %w", i, err)
				}
				if _, ok := msg.(*pgproto3.ReadyForQuery); ok {
					break
				}
			}
			script[i].rerun = true
			i--
		}
	}
	fe.Send(&pgproto3.Terminate{})
	return fe.Flush()
}
