package pxw

import (
	"bytes"
	"context"
	"crypto/sha256"
	"fmt"
	"time"

	"github.com/cossacklabs/acra/acrablock"
	"github.com/cossacklabs/acra/keystore"

	"verif/sim/kernel"
	"verif/sim/ksw"
)

// c01KeyIDCollision (v1 key store): an AcraBlock names the key it was sealed with by a two-byte id. After a
// rotation the client's newer key may carry the same id as the older one (1 in 65536 by chance; here the newer key
// is chosen that way and put in place of the generated one). The value sealed with the older key must still open:
// a key whose id matches but which does not unwrap the data key is one candidate, not the verdict.
func c01KeyIDCollision(w *kernel.World, cw *cryptoWorld, rng *kernel.RNG) {
	ks := cw.pw.KS
	k1, err := ks.KS.GetClientIDSymmetricKey([]byte(owner))
	if err != nil {
		return
	}
	plain := []byte("KEYID-COLLISION-VALUE-" + fmt.Sprint(rng.Intn(1000)))
	p, err := cw.protect([]string{"lib-acrablock", "tr-encrypt-sym"}[rng.Intn(2)], owner, plain)
	if err != nil {
		w.Violate("C01", "protect-succeeds", "key-id-collision", err.Error())
		return
	}
	gen := acrablock.Sha256KeyIDGenerator{}
	want, _ := gen.GenerateKeyID(k1, nil)
	var k2 []byte
	for i := 0; i < 1<<22; i++ {
		c := sha256.Sum256([]byte(fmt.Sprintf("candidate-%d-%d", rng.Intn(1<<30), i)))
		if id, _ := gen.GenerateKeyID(c[:], nil); bytes.Equal(id, want) && !bytes.Equal(c[:], k1) {
			k2 = c[:]
			break
		}
	}
	if k2 == nil {
		return
	}
	// rotation, then the generated current key is replaced by the colliding one (sealed like any key of the store)
	time.Sleep(time.Second) // (history files are named by the time of the rotation)
	if err := ks.Generate(ksw.KStorageSym, []byte(owner)); err != nil {
		w.Violate("C01", "rotation-succeeds", "key-id-collision", err.Error())
		return
	}
	enc, err := keystore.NewSCellKeyEncryptor(cw.pw.Disk.Master)
	if err != nil {
		return
	}
	sealed, err := enc.Encrypt(context.Background(), k2, keystore.NewClientIDKeyContext(keystore.PurposeStorageClientSymmetricKey, []byte(owner)))
	if err != nil {
		return
	}
	loc := ksw.Root + "/" + owner + "_storage_sym"
	if _, _, ok := cw.pw.Disk.FS.Peek(loc); !ok {
		return
	}
	cw.pw.Disk.FS.Poke(loc, sealed)
	ks.Reset()
	if cur, cerr := ks.KS.GetClientIDSymmetricKey([]byte(owner)); cerr != nil || !bytes.Equal(cur, k2) {
		return // (the planted key is not what the store hands out: nothing to judge)
	}
	for _, r := range cw.reveal(p, p.data, nil, owner, nil, nil, true) {
		site := "key-id-collision/" + p.entry + "->" + r.name
		switch {
		case r.panic != nil:
			w.Violate("C01", "owner-reveals-original", site, fmt.Sprint(r.panic))
		case r.err != nil || !bytes.Equal(r.out, plain):
			w.Violate("C01", "owner-reveals-original", site, fmt.Sprintf("the newer key of the client carries the same two-byte id as the one the value was sealed with: err=%v, %d bytes", r.err, len(r.out)))
		}
	}
	w.Probe("key-id-collision-after-rotation")
}
