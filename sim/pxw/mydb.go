package pxw

import (
	"bytes"
	"encoding/binary"
	"errors"
	"fmt"
	"io"
	"math"
	"regexp"
	"strconv"
	"strings"
)

// The simulated MySQL server: the same in-memory tables and statement
// evaluator as the simulated PostgreSQL (pgdb.go, with PgDB.MySQL set for
// MySQL's literal semantics), behind the server side of the MySQL
// client/server protocol (protocol 41: handshake v10, COM_QUERY with text
// result sets, COM_STMT_PREPARE / EXECUTE / CLOSE / RESET with binary result
// sets, COM_PING, COM_INIT_DB, COM_QUIT). Statements are made parseable by the
// evaluator's parser by turning back-quoted identifiers into double-quoted ones
// and `?` placeholders into numbered ones; nothing else is translated.

// MySQL column types used on the wire.
const (
	myTypeLong     = 0x03
	myTypeLongLong = 0x08
	myTypeBlob     = 0xfc
	myTypeVarStr   = 0xfd
	myTypeString   = 0xfe
	myTypeNull     = 0x06
	myTypeTiny     = 0x01
	myTypeShort    = 0x02
	myTypeDouble   = 0x05
	myTypeFloat    = 0x04
	myTypeVarchar  = 0x0f
	myTypeTinyBlob = 0xf9
	myTypeMedBlob  = 0xfa
	myTypeLongBlob = 0xfb
)

const (
	myCapLongPassword   = 0x00000001
	myCapFoundRows      = 0x00000002
	myCapLongFlag       = 0x00000004
	myCapConnectWithDB  = 0x00000008
	myCapProtocol41     = 0x00000200
	myCapTransactions   = 0x00002000
	myCapSecureConn     = 0x00008000
	myCapMultiResults   = 0x00020000
	myCapPluginAuth     = 0x00080000
	myCapPluginAuthLenc = 0x00200000
	myCapDeprecateEOF   = 0x01000000
)

var (
	mySetVarRe  = regexp.MustCompile(`(?is)^\s*set\s+@([a-z0-9_]+)\s*:?=\s*'((?:[^']|'')*)'\s*;?\s*$`)
	myPrepareRe = regexp.MustCompile(`(?is)^\s*prepare\s+([a-z0-9_]+)\s+from\s+(?:@([a-z0-9_]+)|'((?:[^']|'')*)')\s*;?\s*$`)
	myExecuteRe = regexp.MustCompile(`(?is)^\s*execute\s+([a-z0-9_]+)\s*;?\s*$`)
	myDeallocRe = regexp.MustCompile(`(?is)^\s*(?:deallocate|drop)\s+prepare\s+([a-z0-9_]+)\s*;?\s*$`)
)

// MyPacketLog records one MySQL packet as the simulated server saw or sent it.
type myStmt struct {
	query   string // translated to the evaluator's dialect
	nParams int
	types   []byte         // parameter types of the last execution that sent them
	long    map[int][]byte // parameter values received with COM_STMT_SEND_LONG_DATA for the next execution
}

type myConn struct {
	rw  io.ReadWriter
	seq byte
}

func (c *myConn) readPacket() ([]byte, error) {
	var payload []byte
	for {
		var hdr [4]byte
		if _, err := io.ReadFull(c.rw, hdr[:]); err != nil {
			return nil, err
		}
		n := int(hdr[0]) | int(hdr[1])<<8 | int(hdr[2])<<16
		c.seq = hdr[3] + 1
		buf := make([]byte, n)
		if _, err := io.ReadFull(c.rw, buf); err != nil {
			return nil, err
		}
		payload = append(payload, buf...)
		if n < 0xffffff {
			return payload, nil
		}
	}
}

func (c *myConn) writePacket(payload []byte) error {
	for {
		n := len(payload)
		if n > 0xffffff {
			n = 0xffffff
		}
		hdr := []byte{byte(n), byte(n >> 8), byte(n >> 16), c.seq}
		c.seq++
		if _, err := c.rw.Write(append(hdr, payload[:n]...)); err != nil {
			return err
		}
		payload = payload[n:]
		if n < 0xffffff {
			return nil
		}
	}
}

func lenencInt(b []byte, n uint64) []byte {
	switch {
	case n < 251:
		return append(b, byte(n))
	case n < 1<<16:
		return append(b, 0xfc, byte(n), byte(n>>8))
	case n < 1<<24:
		return append(b, 0xfd, byte(n), byte(n>>8), byte(n>>16))
	}
	b = append(b, 0xfe)
	return binary.LittleEndian.AppendUint64(b, n)
}

func lenencStr(b []byte, s []byte) []byte {
	b = lenencInt(b, uint64(len(s)))
	return append(b, s...)
}

func readLenencInt(b []byte) (uint64, int, error) {
	if len(b) == 0 {
		return 0, 0, io.ErrUnexpectedEOF
	}
	switch b[0] {
	case 0xfc:
		if len(b) < 3 {
			return 0, 0, io.ErrUnexpectedEOF
		}
		return uint64(b[1]) | uint64(b[2])<<8, 3, nil
	case 0xfd:
		if len(b) < 4 {
			return 0, 0, io.ErrUnexpectedEOF
		}
		return uint64(b[1]) | uint64(b[2])<<8 | uint64(b[3])<<16, 4, nil
	case 0xfe:
		if len(b) < 9 {
			return 0, 0, io.ErrUnexpectedEOF
		}
		return binary.LittleEndian.Uint64(b[1:]), 9, nil
	}
	return uint64(b[0]), 1, nil
}

func (c *myConn) ok(affected uint64) error {
	p := []byte{0x00}
	p = lenencInt(p, affected)
	p = lenencInt(p, 0)
	p = append(p, 0x02, 0x00, 0x00, 0x00) // status autocommit, no warnings
	return c.writePacket(p)
}

func (c *myConn) eof() error {
	return c.writePacket([]byte{0xfe, 0x00, 0x00, 0x02, 0x00})
}

func (c *myConn) err(code uint16, state, msg string) error {
	p := []byte{0xff, byte(code), byte(code >> 8), '#'}
	p = append(p, (state + "HY000")[:5]...)
	p = append(p, msg...)
	return c.writePacket(p)
}

func myWireType(typ string) (byte, uint16, uint16) {
	switch typ {
	case TInt4:
		return myTypeLong, 63, 0x0080 // binary charset for numbers, BINARY flag
	case TInt8:
		return myTypeLongLong, 63, 0x0080
	case TBytea:
		return myTypeBlob, 63, 0x0090 // BLOB | BINARY
	}
	return myTypeVarStr, 45, 0
}

func (c *myConn) columnDef(table, name, typ string) error {
	t, charset, flags := myWireType(typ)
	var p []byte
	p = lenencStr(p, []byte("def"))
	p = lenencStr(p, []byte("sim"))
	p = lenencStr(p, []byte(table))
	p = lenencStr(p, []byte(table))
	p = lenencStr(p, []byte(name))
	p = lenencStr(p, []byte(name))
	p = append(p, 0x0c, byte(charset), byte(charset>>8))
	p = append(p, 0xff, 0xff, 0xff, 0x00) // column length
	p = append(p, t, byte(flags), byte(flags>>8), 0x00, 0x00, 0x00)
	return c.writePacket(p)
}

// translateMySQL makes a MySQL statement parseable by the evaluator: back-quoted
// identifiers become double-quoted, `?` placeholders become $1..$n. Returns the
// number of placeholders.
func translateMySQL(sql string) (string, int) {
	sql = dropConvertBinary(sql)
	var out strings.Builder
	n := 0
	inStr := byte(0)
	for i := 0; i < len(sql); i++ {
		ch := sql[i]
		if inStr != 0 {
			out.WriteByte(ch)
			if ch == inStr {
				if i+1 < len(sql) && sql[i+1] == inStr {
					out.WriteByte(sql[i+1])
					i++
					continue
				}
				inStr = 0
			}
			continue
		}
		switch ch {
		case '\'':
			inStr = ch
			out.WriteByte(ch)
		case '`':
			out.WriteByte('"')
		case '?':
			n++
			out.WriteString("$" + strconv.Itoa(n))
		case '0':
			// hexadecimal literal 0xABCD -> X'ABCD'
			if i+2 < len(sql) && (sql[i+1] == 'x' || sql[i+1] == 'X') && isHexDigit(sql[i+2]) && (i == 0 || !isIdentChar(sql[i-1])) {
				j := i + 2
				for j < len(sql) && isHexDigit(sql[j]) {
					j++
				}
				out.WriteString("X'" + sql[i+2:j] + "'")
				i = j - 1
				continue
			}
			out.WriteByte(ch)
		default:
			out.WriteByte(ch)
		}
	}
	return out.String(), n
}

func isHexDigit(c byte) bool {
	return c >= '0' && c <= '9' || c >= 'a' && c <= 'f' || c >= 'A' && c <= 'F'
}

func isIdentChar(c byte) bool {
	return c == '_' || c >= '0' && c <= '9' || c >= 'a' && c <= 'z' || c >= 'A' && c <= 'Z'
}

// dropConvertBinary rewrites MySQL's convert(<expr>, binary) to (<expr>): on byte strings it is the identity.
func dropConvertBinary(sql string) string {
	for {
		low := strings.ToLower(sql)
		i := strings.Index(low, "convert(")
		if i < 0 || (i > 0 && isIdentChar(sql[i-1])) {
			return sql
		}
		depth, j := 0, i+len("convert")
		inStr := false
		for ; j < len(sql); j++ {
			switch {
			case sql[j] == '\'':
				inStr = !inStr
			case inStr:
			case sql[j] == '(':
				depth++
			case sql[j] == ')':
				depth--
			}
			if depth == 0 && !inStr {
				break
			}
		}
		if j >= len(sql) {
			return sql
		}
		inner := sql[i+len("convert(") : j]
		k := strings.LastIndex(strings.ToLower(inner), ",")
		if k < 0 || strings.TrimSpace(strings.ToLower(inner[k+1:])) != "binary" {
			return sql
		}
		sql = sql[:i] + "(" + inner[:k] + ")" + sql[j+1:]
	}
}

func tagCount(tag string) uint64 {
	f := strings.Fields(tag)
	if len(f) == 0 {
		return 0
	}
	n, _ := strconv.ParseUint(f[len(f)-1], 10, 64)
	return n
}

// ServeMySQL runs one MySQL server session on conn until COM_QUIT or EOF.
func (db *PgDB) ServeMySQL(conn io.ReadWriter) error {
	c := &myConn{rw: conn}
	// handshake v10
	caps := uint32(myCapLongPassword | myCapFoundRows | myCapLongFlag | myCapConnectWithDB | myCapProtocol41 |
		myCapTransactions | myCapSecureConn | myCapMultiResults | myCapPluginAuth | myCapPluginAuthLenc)
	if db.MyDeprecateEOF {
		caps |= myCapDeprecateEOF
	}
	hs := []byte{10}
	hs = append(hs, "8.0.30-sim\x00"...)
	hs = append(hs, 7, 0, 0, 0)
	hs = append(hs, "abcdefgh"...)
	hs = append(hs, 0)
	hs = append(hs, byte(caps), byte(caps>>8))
	hs = append(hs, 45, 0x02, 0x00)
	hs = append(hs, byte(caps>>16), byte(caps>>24))
	hs = append(hs, 21)
	hs = append(hs, make([]byte, 10)...)
	hs = append(hs, "ijklmnopqrst\x00"...)
	hs = append(hs, "mysql_native_password\x00"...)
	if err := c.writePacket(hs); err != nil {
		return err
	}
	resp, err := c.readPacket()
	if err != nil {
		return err
	}
	clientCaps := uint32(0)
	if len(resp) >= 4 {
		clientCaps = binary.LittleEndian.Uint32(resp)
	}
	deprecateEOF := db.MyDeprecateEOF && clientCaps&myCapDeprecateEOF != 0
	if err := c.ok(0); err != nil {
		return err
	}
	stmts := map[uint32]*myStmt{}
	nextID := uint32(1)
	userVars := map[string]string{}
	sqlPrepared := map[string]string{}
	for {
		c.seq = 0
		pkt, err := c.readPacket()
		if err != nil {
			if errors.Is(err, io.EOF) {
				return nil
			}
			return err
		}
		if len(pkt) == 0 {
			if err := c.err(1047, "08S01", "Unknown command"); err != nil {
				return err
			}
			continue
		}
		cmd, body := pkt[0], pkt[1:]
		switch cmd {
		case 0x01: // COM_QUIT
			return nil
		case 0x02, 0x0e, 0x1a: // COM_INIT_DB, COM_PING, COM_STMT_RESET
			if err := c.ok(0); err != nil {
				return err
			}
		case 0x03: // COM_QUERY
			db.Statements = append(db.Statements, string(body))
			db.emitMyExtras()
			text := string(body)
			// SQL-level prepared statements: SET @v = '<text>', PREPARE s FROM @v | '<text>', EXECUTE s, DEALLOCATE PREPARE s
			if m := mySetVarRe.FindStringSubmatch(text); m != nil {
				userVars[strings.ToLower(m[1])] = strings.ReplaceAll(m[2], "''", "'")
				if err := c.ok(0); err != nil {
					return err
				}
				continue
			}
			if m := myPrepareRe.FindStringSubmatch(text); m != nil {
				src, known := strings.ReplaceAll(m[3], "''", "'"), m[3] != "" || m[2] == ""
				if m[2] != "" {
					src, known = userVars[strings.ToLower(m[2])]
				}
				if !known {
					if err := c.err(1064, "42000", "You have an error in your SQL syntax: the variable holds no statement"); err != nil {
						return err
					}
					continue
				}
				sqlPrepared[strings.ToLower(m[1])] = src
				if err := c.ok(0); err != nil {
					return err
				}
				continue
			}
			if m := myDeallocRe.FindStringSubmatch(text); m != nil {
				delete(sqlPrepared, strings.ToLower(m[1]))
				if err := c.ok(0); err != nil {
					return err
				}
				continue
			}
			if m := myExecuteRe.FindStringSubmatch(text); m != nil {
				src, known := sqlPrepared[strings.ToLower(m[1])]
				if !known {
					if err := c.err(1243, "HY000", "Unknown prepared statement handler ("+m[1]+") given to EXECUTE"); err != nil {
						return err
					}
					continue
				}
				text = src
			}
			sql, _ := translateMySQL(text)
			res := db.exec(sql, nil, nil)
			if err := db.sendMyResult(c, res, false, deprecateEOF); err != nil {
				return err
			}
		case 0x16: // COM_STMT_PREPARE
			db.Statements = append(db.Statements, string(body))
			sql, n := translateMySQL(string(body))
			if _, perr := db.parseOne(sql); perr != nil {
				db.Errors = append(db.Errors, perr.Error())
				if err := c.err(1064, "42000", "You have an error in your SQL syntax: "+perr.Error()); err != nil {
					return err
				}
				continue
			}
			id := nextID
			nextID++
			stmts[id] = &myStmt{query: sql, nParams: n}
			fields, _ := db.describe(sql)
			p := []byte{0x00}
			p = binary.LittleEndian.AppendUint32(p, id)
			p = append(p, byte(len(fields)), byte(len(fields)>>8), byte(n), byte(n>>8), 0x00, 0x00, 0x00)
			if err := c.writePacket(p); err != nil {
				return err
			}
			if n > 0 {
				for i := 0; i < n; i++ {
					if err := c.columnDef("", "?", TText); err != nil {
						return err
					}
				}
				if !deprecateEOF {
					if err := c.eof(); err != nil {
						return err
					}
				}
			}
			if len(fields) > 0 {
				types := db.describeTypes(sql)
				for i, f := range fields {
					typ := TText
					if i < len(types) {
						typ = types[i]
					}
					if err := c.columnDef(db.tableOf(sql), string(f.Name), typ); err != nil {
						return err
					}
				}
				if !deprecateEOF {
					if err := c.eof(); err != nil {
						return err
					}
				}
			}
		case 0x17: // COM_STMT_EXECUTE
			if len(body) < 9 {
				if err := c.err(1835, "HY000", "Malformed communication packet"); err != nil {
					return err
				}
				continue
			}
			id := binary.LittleEndian.Uint32(body)
			if id == 0xffffffff {
				id = nextID - 1 // MariaDB: the last statement prepared on this connection
			}
			st := stmts[id]
			if st == nil {
				if err := c.err(1243, "HY000", "Unknown prepared statement handler"); err != nil {
					return err
				}
				continue
			}
			params, formats, perr := db.decodeMyParams(st, body[9:])
			if perr != nil {
				db.Errors = append(db.Errors, perr.Error())
				if err := c.err(1835, "HY000", "Malformed communication packet: "+perr.Error()); err != nil {
					return err
				}
				continue
			}
			for _, p := range params {
				db.ParamsSeen = append(db.ParamsSeen, p)
			}
			db.emitMyExtras()
			res := db.exec(st.query, params, formats)
			if err := db.sendMyResult(c, res, true, deprecateEOF); err != nil {
				return err
			}
		case 0x19: // COM_STMT_CLOSE: no response
			if len(body) >= 4 {
				delete(stmts, binary.LittleEndian.Uint32(body))
			}
		case 0x18: // COM_STMT_SEND_LONG_DATA: no response; the pieces are the parameter's value at the next execution
			if len(body) >= 6 {
				if st := stmts[binary.LittleEndian.Uint32(body)]; st != nil {
					if st.long == nil {
						st.long = map[int][]byte{}
					}
					k := int(binary.LittleEndian.Uint16(body[4:]))
					st.long[k] = append(st.long[k], body[6:]...)
					db.ParamsSeen = append(db.ParamsSeen, append([]byte{}, body[6:]...))
				}
			}
		default:
			if err := c.err(1047, "08S01", "Unknown command"); err != nil {
				return err
			}
		}
	}
}

func (db *PgDB) emitMyExtras() {
	db.stmtCount++
}

// types bound at an execution are remembered per statement, as real servers do.
func (db *PgDB) decodeMyParams(st *myStmt, b []byte) ([][]byte, []int16, error) {
	n := st.nParams
	if n == 0 {
		return nil, nil, nil
	}
	nb := (n + 7) / 8
	if len(b) < nb+1 {
		return nil, nil, fmt.Errorf("parameter block too short")
	}
	nulls := b[:nb]
	bound := b[nb]
	b = b[nb+1:]
	var types []byte
	if bound != 1 {
		// as real servers do: the types bound at an earlier execution of the statement stay in force
		if st.types == nil {
			return nil, nil, fmt.Errorf("parameter types were not sent")
		}
		types = st.types
	} else {
		if len(b) < 2*n {
			return nil, nil, fmt.Errorf("parameter types too short")
		}
		types = b[:2*n]
		st.types = append([]byte{}, types...)
		b = b[2*n:]
	}
	params := make([][]byte, n)
	formats := make([]int16, n)
	long := st.long
	st.long = nil
	for i := 0; i < n; i++ {
		if v, ok := long[i]; ok {
			params[i], formats[i] = v, 1
			continue
		}
		if nulls[i/8]&(1<<(uint(i)%8)) != 0 {
			continue
		}
		t := types[2*i]
		switch t {
		case myTypeNull:
		case myTypeTiny:
			if len(b) < 1 {
				return nil, nil, io.ErrUnexpectedEOF
			}
			params[i] = []byte(strconv.Itoa(int(int8(b[0]))))
			b = b[1:]
		case myTypeShort:
			if len(b) < 2 {
				return nil, nil, io.ErrUnexpectedEOF
			}
			params[i] = []byte(strconv.Itoa(int(int16(binary.LittleEndian.Uint16(b)))))
			b = b[2:]
		case myTypeLong:
			if len(b) < 4 {
				return nil, nil, io.ErrUnexpectedEOF
			}
			params[i] = []byte(strconv.FormatInt(int64(int32(binary.LittleEndian.Uint32(b))), 10))
			b = b[4:]
		case myTypeLongLong:
			if len(b) < 8 {
				return nil, nil, io.ErrUnexpectedEOF
			}
			params[i] = []byte(strconv.FormatInt(int64(binary.LittleEndian.Uint64(b)), 10))
			b = b[8:]
		case myTypeDouble:
			if len(b) < 8 {
				return nil, nil, io.ErrUnexpectedEOF
			}
			params[i] = []byte(strconv.FormatFloat(math.Float64frombits(binary.LittleEndian.Uint64(b)), 'g', -1, 64))
			b = b[8:]
		case myTypeFloat:
			if len(b) < 4 {
				return nil, nil, io.ErrUnexpectedEOF
			}
			params[i] = []byte(strconv.FormatFloat(float64(math.Float32frombits(binary.LittleEndian.Uint32(b))), 'g', -1, 32))
			b = b[4:]
		case myTypeBlob, myTypeVarStr, myTypeString, myTypeVarchar, myTypeTinyBlob, myTypeMedBlob, myTypeLongBlob:
			l, k, err := readLenencInt(b)
			if err != nil || uint64(len(b)-k) < l {
				return nil, nil, fmt.Errorf("string parameter %d runs past the packet", i)
			}
			params[i] = append([]byte{}, b[k:k+int(l)]...)
			formats[i] = 1 // raw bytes
			b = b[k+int(l):]
		default:
			return nil, nil, fmt.Errorf("parameter type 0x%02x not supported by the simulated database", t)
		}
	}
	if len(b) != 0 {
		return nil, nil, fmt.Errorf("%d bytes left after the last parameter", len(b))
	}
	return params, formats, nil
}

func (db *PgDB) sendMyResult(c *myConn, res *pgResult, binaryRows bool, deprecateEOF bool) error {
	if res.err != "" {
		db.Errors = append(db.Errors, res.err)
		code, state := uint16(1064), "42000"
		if strings.Contains(res.err, "does not exist") {
			code, state = 1146, "42S02"
		}
		return c.err(code, state, res.err)
	}
	if res.fields == nil {
		return c.ok(tagCount(res.tag))
	}
	if err := c.writePacket(lenencInt(nil, uint64(len(res.fields)))); err != nil {
		return err
	}
	for i, f := range res.fields {
		typ := TText
		if i < len(res.cols) {
			typ = res.cols[i]
		}
		if err := c.columnDef(res.table, string(f.Name), typ); err != nil {
			return err
		}
	}
	if !deprecateEOF {
		if err := c.eof(); err != nil {
			return err
		}
	}
	for _, row := range res.rows {
		var p []byte
		if binaryRows {
			p = append(p, 0x00)
			bitmap := make([]byte, (len(row)+7+2)/8)
			for i, cell := range row {
				if cell == nil {
					bitmap[(i+2)/8] |= 1 << (uint(i+2) % 8)
				}
			}
			p = append(p, bitmap...)
			for i, cell := range row {
				if cell == nil {
					continue
				}
				typ := TText
				if i < len(res.cols) {
					typ = res.cols[i]
				}
				switch typ {
				case TInt4:
					n, _ := strconv.ParseInt(string(cell), 10, 64)
					p = binary.LittleEndian.AppendUint32(p, uint32(int32(n)))
				case TInt8:
					n, _ := strconv.ParseInt(string(cell), 10, 64)
					p = binary.LittleEndian.AppendUint64(p, uint64(n))
				default:
					p = lenencStr(p, cell)
				}
			}
		} else {
			for _, cell := range row {
				if cell == nil {
					p = append(p, 0xfb)
				} else {
					p = lenencStr(p, cell)
				}
			}
		}
		if err := c.writePacket(p); err != nil {
			return err
		}
	}
	if deprecateEOF {
		// OK packet with the EOF header
		return c.writePacket([]byte{0xfe, 0x00, 0x00, 0x02, 0x00, 0x00, 0x00})
	}
	return c.eof()
}

// describeTypes returns the column types of a statement's result.
func (db *PgDB) describeTypes(sql string) []string {
	res := db.dryRun(sql)
	if res == nil {
		return nil
	}
	return res.cols
}

// dryRun evaluates a row-returning statement against a copy of nothing: only the shape is needed.
func (db *PgDB) dryRun(sql string) *pgResult {
	st, err := db.parseOne(sql)
	if err != nil || st.GetSelectStmt() == nil {
		return nil
	}
	s := st.GetSelectStmt()
	if len(s.FromClause) != 1 || s.FromClause[0].GetRangeVar() == nil {
		return nil
	}
	t := db.Tables[relName(s.FromClause[0].GetRangeVar())]
	if t == nil {
		return nil
	}
	fields, idx, err := db.fieldsFor(t, s.TargetList)
	if err != nil {
		return nil
	}
	res := &pgResult{fields: fields}
	for _, i := range idx {
		res.cols = append(res.cols, t.Cols[i].Type)
	}
	return res
}

func (db *PgDB) tableOf(sql string) string {
	st, err := db.parseOne(sql)
	if err != nil || st.GetSelectStmt() == nil {
		return ""
	}
	s := st.GetSelectStmt()
	if len(s.FromClause) == 1 && s.FromClause[0].GetRangeVar() != nil {
		return relName(s.FromClause[0].GetRangeVar())
	}
	return ""
}

var _ = bytes.Equal
