package pxw

import (
	"bytes"
	"fmt"
	stdlog "log"
	"strings"
	"testing"
	"time"

	"github.com/cossacklabs/acra/logging"
	log "github.com/sirupsen/logrus"

	"verif/sim/kernel"
)

// C16 — literal values from statements never appear in logs.
//
// Complete sessions run through the real proxy and firewall with all log
// output captured: the global logrus logger (text, JSON or CEF formatter, at a
// drawn level) and Go's standard log package. Statements carry marker literals
// at drawn positions and in several spellings; the session includes the fault
// paths where a raw statement could be logged: firewall rejections, unparsable
// statements, database errors, DDL the parser only partly understands.
type C16 struct{}

func (C16) ID() string { return "C16" }

var c16Statements = []string{
	// %s = string marker, %d = numeric marker
	"INSERT INTO t1 (id, plain, c1) VALUES (%d, '%s', '%s-prot')",
	"SELECT id, plain, c1 FROM t1 WHERE plain = '%s' AND id = %d",
	"SELECT id, plain FROM t1 WHERE plain IN ('%s', '%s-b') OR id BETWEEN %d AND 999999999999999",
	"SELECT id FROM t1 WHERE plain LIKE '%s%%' LIMIT %d",
	"UPDATE t1 SET plain = '%s' WHERE id = %d",
	"DELETE FROM t2 WHERE note = '%s' AND id = %d",
	"SELECT id, note FROM t9 WHERE note = '%s' AND id = %d",                               // rejected by the firewall (table t9)
	"SELEC id FRM t2 WHERE note = '%s' AND id = %d",                                       // unparsable
	"SELECT id, note FROM no_such_table WHERE note = '%s' AND id = %d",                    // database error
	"SELECT id, plain FROM t1 WHERE plain = E'%s\\n' AND id = %d",                         // escape-string literal
	"SELECT id, plain FROM t1 WHERE plain = '%s' AND id = -%d",                            // negative number
	"SELECT id, plain FROM t1 WHERE id = %d.5e0 AND plain = '%s'",                         // decimal / exponent
	"CREATE TABLE zz (a text DEFAULT '%s', b bigint DEFAULT %d)",                          // DDL
	"SELECT upper('%s'), id FROM t1 WHERE id = %d",                                        // function argument
	"SELECT id FROM t1 WHERE plain = (SELECT note FROM t2 WHERE note = '%s' AND id = %d)", // sub-select
	"SELECT '%s', %d FROM t1",                                                             // select list
	"SELECT plain, count(*) FROM t1 GROUP BY plain HAVING plain = '%s' OR count(*) > %d",  // HAVING
	"SELECT id FROM t1 WHERE plain = '%s' UNION SELECT id FROM t2 WHERE id = %d",          // union
	"SELECT id FROM t1 WHERE plain = '%s' LIMIT 5 OFFSET %d",                              // OFFSET
	"INSERT INTO t2 (id, note) VALUES (1, 'x'), (%d, '%s')",                               // second VALUES row
	"SELECT CASE WHEN plain = '%s' THEN %d ELSE 0 END FROM t1",                            // CASE
	"SELECT id FROM t1 WHERE plain = '%s'::text AND id = %d::bigint",                      // casts
	"SELECT id FROM t1 WHERE plain = $$%s$$ AND id = %d",                                  // dollar-quoted string
	"SELECT id FROM t1 WHERE plain = 'it''s %s' AND id = +%d",                             // doubled quote, unary plus
	"CREATE TABLE zz (a text DEFAULT '%s', b garbage %d)",                                 // DDL understood only in part
	"INSERT INTO t2 (id, note) SELECT id, '%s' FROM t1 WHERE id = %d",                     // INSERT .. SELECT
	"SELECT id FROM t1 WHERE plain = '%s' ORDER BY id = %d",                               // ORDER BY expression
	"SELECT id FROM t1 WHERE '%s' IN ('x', 'y') OR id - %d IN (1, 2, 3)",                  // literal on the left of IN
	"SELECT id FROM t1 WHERE concat(plain, '%s') NOT IN ('a', 'b') AND id = %d",           // literal inside the left operand of NOT IN
	"SELECT id FROM t1 WHERE plain = '%s' AND id = 09%d",                                  // leading zero, not an octal number
	"SELECT id FROM t1 WHERE plain = '%s' AND id < %d0000000000",                          // beyond 64 bits
	"SELECT id FROM t1 WHERE plain = '%s' AND c1 = X'%d'",                                 // hexadecimal string
	"INSERT INTO t2 (id, note) VALUES (1, 'x') RETURNING '%s', %d",                        // RETURNING list
	"INSERT INTO t1 (id, plain, c2) VALUES (5, '%s', %d)",                                 // value out of range for a tokenized int32 column
	"UPDATE t1 SET c2 = '%s' WHERE id = %d",                                               // text for a tokenized int32 column
	"SELECT id FROM t1 WHERE plain = '%s' UNION SELECT id FROM t2 ORDER BY id LIMIT %d",   // tail of a UNION
	"SELECT id FROM t2 UNION SELECT id FROM t1 ORDER BY id = %d, plain = '%s'",            // ORDER BY expression of a UNION
	"SELECT id FROM t1 WHERE plain = '%s' LIMIT ALL OFFSET %d",                            // LIMIT ALL
	"EXECUTE st ('%s', %d)",                                                     // SQL-level EXECUTE
	"SELECT timestamp '%s', %d FROM t1",                                         // typed literal
	"SELECT 'a' '%s', %d FROM t1",                                               // adjacent strings
	"SELECT id, interval '%s' FROM t1 WHERE id = %d",                            // interval literal
	"SELECT id FROM t1 WHERE id IN (SELECT %d UNION SELECT 1) AND plain = '%s'", // UNION in a sub-select
	"INSERT INTO t2 (id, note) VALUES (1, 'x') ON CONFLICT (id) DO UPDATE SET note = '%s', id = %d",
	"UPDATE t2 SET note = 'x' WHERE id = 1 RETURNING '%s', %d",
	"DELETE FROM t2 WHERE id = 1 RETURNING '%s', %d",
	"SELECT id FROM t1 WHERE plain ILIKE '%s' AND id IS DISTINCT FROM %d",
	"SELECT id FROM t1 JOIN t2 ON t1.plain = '%s' AND t2.id = %d",
	"SELECT EXISTS (SELECT 1 FROM t1 WHERE plain = '%s' AND id = %d)",
	"SELECT id FROM t1 WHERE (plain, id) = ('%s', %d)",
	"SELECT id FROM t1 WHERE plain = '%s' GROUP BY id + %d",
	"SELECT position('%s' in plain), substring(plain from %d) FROM t1",
	"INSERT INTO t1 (id, plain, c1) VALUES (%d, 'x', '$2b$%s')", // a value for a protected column that begins like a placeholder
	"UPDATE t1 SET c1 = ':v%s' WHERE id = %d",
	"UPDATE t1 SET c1 = '$%s' WHERE id = %d",
	"UPDATE t2 SET note = 'x' FROM (SELECT '%s' AS m, %d AS n) s WHERE t2.id = 1",        // sub-select in the FROM of an UPDATE
	"WITH w AS (SELECT '%s' AS m, %d AS n) SELECT m FROM w",                              // common table expression
	"SELECT id FROM t1 WHERE plain = ANY (ARRAY['%s', 'b']) AND id = ANY (ARRAY[%d, 2])", // array constructors
	"SELECT id FROM t1 WHERE plain = U&'%s' AND id = %d",                                 // Unicode-escape string
	"SELECT id FROM t1 WHERE plain = N'%s' AND id = %d",                                  // national character string
	"SELECT id FROM t1 WHERE plain SIMILAR TO '%s' AND id <> %d",
	"SELECT id FROM t1 WHERE plain ~ '%s' AND id = %d", // regular-expression operator
	"SET application_name = '%s'",
	"SET statement_timeout = %d",
	"PREPARE st2 AS SELECT id FROM t1 WHERE plain = '%s' AND id = %d", // SQL-level PREPARE
	"EXPLAIN SELECT id FROM t1 WHERE plain = '%s' AND id = %d",
	"SELECT id FROM t1 WHERE plain = '%s' AND id = %d; SELECT 1",               // two statements in one message
	"SELECT sum(id) OVER (PARTITION BY plain = '%s' ORDER BY id + %d) FROM t1", // window definition
	"SELECT coalesce(nullif(plain, '%s'), 'x') FROM t1 WHERE id NOT BETWEEN 1 AND %d",
	"SELECT id FROM t1 WHERE plain = '%s' AND id = %d FOR UPDATE",
	"SELECT id FROM t1 WHERE plain = '%s' FETCH FIRST %d ROWS ONLY",
	"SELECT id FROM t1 WHERE plain = B'%d' OR plain = '%s'", // bit string
	"SELECT id, note FROM t2 WHERE note = '%s' OR id = %d",  // (the statement a query_ignore rule may list)
}

// statements in the MySQL dialect (MySQL runs)
var c16MyStatements = []string{
	"INSERT INTO t1 (id, plain, c1) VALUES (%d, '%s', '%s-prot')",
	"SELECT id, plain, c1 FROM t1 WHERE plain = '%s' AND id = %d",
	"SELECT id, plain FROM t1 WHERE plain IN ('%s', '%s-b') OR id BETWEEN %d AND 999999999999999",
	"SELECT id FROM t1 WHERE plain LIKE '%s%%' LIMIT %d",
	"UPDATE t1 SET plain = '%s' WHERE id = %d",
	"DELETE FROM t2 WHERE note = '%s' AND id = %d",
	"SELECT id, note FROM t9 WHERE note = '%s' AND id = %d",            // rejected by the firewall (table t9)
	"SELEC id FRM t2 WHERE note = '%s' AND id = %d",                    // unparsable
	"SELECT id, note FROM no_such_table WHERE note = '%s' AND id = %d", // database error
	"SELECT id, plain FROM t1 WHERE plain = \"%s\" AND id = %d",        // double-quoted string
	"SELECT id, plain FROM t1 WHERE plain = '%s' AND id = -%d",         // negative number
	"SELECT id, plain FROM t1 WHERE id = %d.5e0 AND plain = '%s'",      // decimal / exponent
	"CREATE TABLE zz (a text DEFAULT '%s', b bigint DEFAULT %d)",       // DDL
	"SELECT upper('%s'), id FROM t1 WHERE id = %d",                     // function argument
	"SELECT id FROM t1 WHERE plain = (SELECT note FROM t2 WHERE note = '%s' AND id = %d)",
	"SELECT '%s', %d FROM t1",
	"SELECT plain, count(*) FROM t1 GROUP BY plain HAVING plain = '%s' OR count(*) > %d",
	"SELECT id FROM t1 WHERE plain = '%s' UNION SELECT id FROM t2 WHERE id = %d",
	"SELECT id FROM t1 WHERE plain = '%s' LIMIT %d, 5", // MySQL LIMIT offset, count
	"INSERT INTO t2 (id, note) VALUES (1, 'x'), (%d, '%s')",
	"SELECT CASE WHEN plain = '%s' THEN %d ELSE 0 END FROM t1",
	"SELECT `id` FROM `t1` WHERE `plain` = '%s' AND `id` = %d", // back-quoted identifiers
	"SELECT id FROM t1 WHERE plain = 'it''s %s' AND id = +%d",
	"SELECT id FROM t1 WHERE plain = 'back\\\\slash %s' AND id = %d", // backslash escape
	"CREATE TABLE zz (a text DEFAULT '%s', b garbage %d)",            // DDL understood only in part
	"INSERT INTO t2 (id, note) SELECT id, '%s' FROM t1 WHERE id = %d",
	"INSERT INTO t2 (id, note) VALUES (%d, '%s') ON DUPLICATE KEY UPDATE note = 'dup-%s'",
	"REPLACE INTO t2 (id, note) VALUES (%d, '%s')",
	"SELECT id FROM t1 WHERE '%s' IN ('x', 'y') OR id - %d IN (1, 2, 3)",
	"SELECT id FROM t1 WHERE concat(plain, '%s') NOT IN ('a', 'b') AND id = %d",
	"SELECT id FROM t1 WHERE plain = '%s' AND id = 09%d",
	"SELECT id FROM t1 WHERE plain = '%s' AND id < %d0000000000",
	"SELECT id FROM t1 WHERE plain = '%s' AND c1 = X'%d'",
	"SELECT id FROM t1 WHERE plain = '%s' AND c1 = 0x%d",
	"SELECT group_concat(plain SEPARATOR '%s') FROM t1 WHERE id = %d",
	"INSERT INTO t1 (id, plain, c2) VALUES (5, '%s', %d)",
	"UPDATE t1 SET c2 = '%s' WHERE id = %d",
	"SELECT id FROM t1 WHERE plain = '%s' UNION SELECT id FROM t2 ORDER BY id LIMIT %d",
	"SELECT id FROM t2 UNION SELECT id FROM t1 ORDER BY id = %d, plain = '%s'",
	"SHOW TABLES LIKE '%s'",
	"SHOW TABLES WHERE Tables_in_sim = '%s' OR 1 = %d",
	"CREATE TABLE zz (a text COMMENT '%s', b bigint DEFAULT %d)",
	"SELECT timestamp '%s', %d FROM t1",
	"SELECT 'a' '%s', %d FROM t1",
	"SELECT id AS '%s' FROM t1 WHERE id = %d",
	"SELECT id FROM t1 WHERE id IN (SELECT %d UNION SELECT 1) AND plain = '%s'",
	"INSERT INTO t2 SET note = '%s', id = %d",
	"SELECT id FROM t1 JOIN t2 ON t1.plain = '%s' AND t2.id = %d",
	"SELECT EXISTS (SELECT 1 FROM t1 WHERE plain = '%s' AND id = %d)",
	"SELECT id FROM t1 WHERE (plain, id) = ('%s', %d)",
	"SELECT id FROM t1 WHERE plain REGEXP '%s' AND id <=> %d",
	"SELECT id FROM t1 WHERE match(plain) against ('%s') AND id = %d",
	"SELECT convert('%s', char), cast(%d as char) FROM t1",
	"DELETE FROM t2 WHERE note = '%s' ORDER BY id LIMIT %d",
	"UPDATE t2 SET note = '%s' ORDER BY id LIMIT %d",
	"SELECT id FROM t1 WHERE plain = BINARY '%s' AND id = %d DIV 2",
	"SELECT id FROM t1 WHERE plain = '%s' AND id = if(id > %d, 1, 2)",
	"SELECT id FROM t1 WHERE plain = _utf8'%s' AND id = %d",
	"INSERT INTO t1 (id, plain, c1) VALUES (%d, 'x', '$2b$%s')", // a value for a protected column that begins like a placeholder
	"UPDATE t1 SET c1 = ':v%s' WHERE id = %d",
	"INSERT INTO t1 (id, plain, c1) VALUES (%d, 'x', ':v%s') ON DUPLICATE KEY UPDATE c1 = ':%s'",
	"WITH w AS (SELECT '%s' AS m, %d AS n) SELECT m FROM w",
	"SELECT id FROM t1 WHERE plain = N'%s' AND id = %d",
	"SELECT id FROM t1 WHERE plain = b'%d' OR plain = '%s'",
	"SET @v = '%s', @n = %d",
	"SET NAMES '%s'",
	"EXPLAIN SELECT id FROM t1 WHERE plain = '%s' AND id = %d",
	"SELECT id FROM t1 WHERE plain = '%s' AND id = %d; SELECT 1",
	"SELECT date_add(now(), INTERVAL %d DAY), '%s'",
	"SELECT id FROM t1 WHERE plain = '%s' AND id = %d FOR UPDATE",
	"SELECT id FROM t1 WHERE plain = '%s' AND id = %d LOCK IN SHARE MODE",
	"PREPARE st2 FROM 'SELECT id FROM t1 WHERE plain = ''%s'' AND id = %d'",
	"SELECT id FROM t1 WHERE plain SOUNDS LIKE '%s' AND id MOD %d = 1",
	"SELECT id FROM t1 WHERE plain = '%s' COLLATE utf8_bin AND id = %d",
	"INSERT INTO t2 (id, note) VALUES (%d, DEFAULT), (2, concat('%s', 'x'))",
	"SELECT id, note FROM t2 WHERE note = '%s' OR id = %d", // (the statement a query_ignore rule may list)
}

func (C16) Explore(x *kernel.Explorer, seed uint64) {
	r := kernel.NewRNG(seed, 0xc16)
	for i := 0; i < 4 && !x.Expired(); i++ {
		plan := &kernel.Plan{Prop: "C16", Seed: kernel.Mix(seed, uint64(i)), Swarm: map[string]int64{
			"chunk": int64(r.Intn(4)), "level": int64(r.Intn(3)), "format": int64(r.Intn(3)), "extended": int64(r.Intn(2)), "ignoreparse": int64(r.Intn(2)), "strictparse": int64(r.Intn(3) / 2), "qignore": int64(r.Intn(3) / 2), "mysql": int64(r.Intn(3) / 2), "depeof": int64(r.Intn(2)), "rawmy": int64(r.Intn(2)), "reexec": int64(r.Intn(2)), "wyield": int64(r.Intn(2))}}
		n := 2 + r.Intn(8)
		for j := 0; j < n; j++ {
			plan.Ops = append(plan.Ops, kernel.Op{ID: j + 1, Kind: "stmt", A: []int64{int64(r.Intn(len(c16Statements) * len(c16MyStatements)))}})
		}
		x.Exec(plan)
	}
}

func (C16) Run(t *testing.T, plan *kernel.Plan, keepLog bool) *kernel.Result {
	w := kernel.NewWorld(plan, keepLog)
	Bubble(t, plan.Seed, func() {
		start := time.Now()
		rng := kernel.NewRNG(plan.Seed, 0xd16c)
		// capture every log sink
		var captured bytes.Buffer
		std := log.StandardLogger()
		oldFmt, oldOut, oldLevel := std.Formatter, std.Out, std.Level
		oldStd := stdlog.Writer()
		defer func() {
			std.SetFormatter(oldFmt)
			std.SetOutput(oldOut)
			std.SetLevel(oldLevel)
			stdlog.SetOutput(oldStd)
			logging.SetLogLevel(logging.LogDiscard)
			std.SetLevel(oldLevel)
		}()
		formatName := []string{"plaintext", "json", "cef"}[plan.Sw("format")%3]
		switch formatName {
		case "json":
			log.SetFormatter(logging.JSONFormatter())
		case "cef":
			log.SetFormatter(logging.CEFFormatter())
		default:
			log.SetFormatter(logging.TextFormatter())
		}
		log.SetOutput(&captured)
		stdlog.SetOutput(&captured)
		levelName := []string{"debug", "verbose", "default"}[plan.Sw("level")%3]
		switch levelName {
		case "debug":
			logging.SetLogLevel(logging.LogDebug)
		case "verbose":
			logging.SetLogLevel(logging.LogVerbose)
		default:
			logging.SetLogLevel(logging.LogDiscard)
			log.SetLevel(log.WarnLevel)
		}
		cols := []colKind{{Name: "c1", Envelope: "acrablock"}, {Name: "c2", Token: "int32"}}
		mysql := plan.Sw("mysql") == 1
		statements, dbms := c16Statements, "pg"
		if mysql {
			statements, dbms = c16MyStatements, "mysql"
		}
		var script []Stmt
		type mark struct {
			text string
			stmt int
		}
		var marks []mark
		for i, op := range plan.Ops {
			tmplIdx := int(op.Arg(0, 0)) % len(statements)
			sm := fmt.Sprintf("ZQLOGMARK%03dx%02d", i, tmplIdx)
			nm := 770000000000 + int64(i)*1000003 + int64(tmplIdx)
			tm := statements[tmplIdx]
			var args []interface{}
			for _, verb := range verbsOf(tm) {
				if verb == 's' {
					args = append(args, sm)
				} else {
					args = append(args, nm)
				}
			}
			script = append(script, Stmt{SQL: fmt.Sprintf(tm, args...), Extended: plan.Sw("extended") == 1 && !strings.HasPrefix(tm, "SELEC ")})
			marks = append(marks, mark{sm, i}, mark{fmt.Sprint(nm), i})
		}
		// in a third of the runs the firewall starts with a query_ignore rule that lists one statement of the session
		ignoreRule := ""
		if plan.Sw("qignore") == 1 {
			for _, st := range script {
				if strings.HasPrefix(st.SQL, "SELECT id, note FROM t2 WHERE note = ") {
					ignoreRule = fmt.Sprintf("  - handler: query_ignore\n    queries:\n      - %q\n", st.SQL)
					break
				}
			}
		}
		censorYAML := fmt.Sprintf("version: 0.85.0\nignore_parse_error: %v\nhandlers:\n%s  - handler: deny\n    tables:\n      - t9\n", plan.Sw("ignoreparse") == 1, ignoreRule)
		pw, err := NewPgWorld(w, rng, PgWorldConfig{SchemaYAML: schemaYAML(cols), CensorYAML: censorYAML, Clients: []string{owner}, ChunkMode: int(plan.Sw("chunk")),
			MySQL: mysql, MyDeprecateEOF: plan.Sw("depeof") == 1, StrictParser: plan.Sw("strictparse") == 1})
		if err != nil {
			w.Violate("C16", "world-builds", "pg", err.Error())
			return
		}
		defer pw.Censor.ReleaseAll()
		pw.DB.AddTable("t1", Col{"id", TInt8}, Col{"plain", TText}, Col{"c1", TBytea}, Col{"c2", TInt4})
		pw.DB.AddTable("t2", Col{"id", TInt8}, Col{"note", TText})
		pw.DB.AddTable("t9", Col{"id", TInt8}, Col{"note", TText})
		run := pw.RunSession(owner, script)
		if w.Res.Cut {
			return
		}
		for _, p := range pw.Panics {
			w.Violate("C14", "no-panic", "pg/proxy", p)
		}
		_ = run
		// background writers of the firewall flush on tickers: let time pass
		time.Sleep(3 * time.Second)
		out := captured.Bytes()
		w.Res.Extra["log_bytes"] += int64(len(out))
		site := fmt.Sprintf("%s/%s/%s", dbms, formatName, levelName)
		seenStmt := map[int]bool{}
		for _, m := range marks {
			if seenStmt[m.stmt] {
				continue
			}
			if i := bytes.Index(out, []byte(m.text)); i >= 0 {
				seenStmt[m.stmt] = true
				lineStart := bytes.LastIndexByte(out[:i], '\n') + 1
				lineEnd := i + bytes.IndexByte(append(out[i:], '\n'), '\n')
				tmplIdx := int(plan.Ops[m.stmt].Arg(0, 0)) % len(statements)
				kind := map[int]string{7: "unparsable-statement", 9: "escape-string-literal", 12: "ddl-default-literal"}[tmplIdx]
				if kind == "" || mysql {
					kind = fmt.Sprintf("stmt%02d", tmplIdx)
				}
				w.Violate("C16", "no-literal-in-logs", dbms+"/"+kind, fmt.Sprintf("log output contains literal %q of statement %q: %.300q", m.text, script[m.stmt].SQL, out[lineStart:lineEnd]))
			}
		}
		w.State(site)
		w.Res.SimNanos = int64(time.Since(start))
		w.Res.Trivial = len(out) == 0
	})
	return w.Finish()
}

// verbsOf lists the formatting verbs (s or d) of a template in order.
func verbsOf(tm string) []byte {
	var out []byte
	for i := 0; i+1 < len(tm); i++ {
		if tm[i] == '%' {
			if tm[i+1] == 's' || tm[i+1] == 'd' {
				out = append(out, tm[i+1])
			}
			i++
		}
	}
	return out
}
