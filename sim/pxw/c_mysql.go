package pxw

import (
	"bytes"
	"encoding/binary"
	"encoding/hex"
	"fmt"
	"runtime"
	"strconv"
	"strings"
	"testing"
	"time"

	"verif/sim/kernel"
)

// MySQL halves of the proxy checks. The world is the same as for PostgreSQL
// (pgworld.go) with AcraServer's MySQL proxy in front of the simulated MySQL
// server (mydb.go) and the go-sql-driver client (myclient.go). A check's
// Explore draws "mysql"=1 for a share of its plans and its Run dispatches here.

// myLiteral renders a value as a MySQL literal (mode 1: hexadecimal literal for binary columns).
func myLiteral(c colKind, v string, mode int) string {
	if c.numeric() {
		return v
	}
	if mode == 1 && c.dbType() == TBytea && c.DataType == "" {
		return "X'" + hex.EncodeToString([]byte(v)) + "'"
	}
	return sqlQuote(v)
}

// myArg is the driver argument for a value of a column.
func myArg(c *colKind, v string, asBytes bool) interface{} {
	if c != nil && c.numeric() {
		n, _ := strconv.ParseInt(v, 10, 64)
		return n
	}
	if asBytes {
		return []byte(v)
	}
	return v
}

func myInsertStmt(names []string, id int, plain string, vals []string, cols []colKind, useArgs bool, mode int) Stmt {
	st := Stmt{Extended: useArgs}
	var parts []string
	if useArgs {
		parts = []string{"?", "?"}
		st.Args = []interface{}{int64(id), plain}
	} else {
		parts = []string{strconv.Itoa(id), sqlQuote(plain)}
	}
	for i, v := range vals {
		if useArgs {
			st.Args = append(st.Args, myArg(&cols[i], v, mode == 1))
			parts = append(parts, "?")
		} else {
			parts = append(parts, myLiteral(cols[i], v, mode))
		}
	}
	st.SQL = "INSERT INTO t1 (" + strings.Join(names, ", ") + ") VALUES (" + strings.Join(parts, ", ") + ")"
	return st
}

func myColWorld(w *kernel.World, plan *kernel.Plan, rng *kernel.RNG, cols []colKind) (*PgWorld, []string, error) {
	pw, err := NewPgWorld(w, rng, PgWorldConfig{SchemaYAML: schemaYAML(cols), Clients: []string{owner, stranger}, ChunkMode: int(plan.Sw("chunk")),
		MySQL: true, MyDeprecateEOF: plan.Sw("depeof") == 1, KeyFaultNth: int(plan.Sw("keyfault")), KeystoreV2: plan.Sw("ksv2") == 1, TokenFaultNth: int(plan.Sw("tokfault"))})
	if err != nil {
		return nil, nil, err
	}
	dbCols := []Col{{"id", TInt4}, {"plain", TText}}
	names := []string{"id", "plain"}
	for _, c := range cols {
		dbCols = append(dbCols, Col{c.Name, c.dbType()})
		names = append(names, c.Name)
	}
	pw.DB.AddTable("t1", dbCols...)
	pw.DB.AddTable("t2", Col{"id", TInt4}, Col{"note", TText}, Col{"b", TBytea}, Col{"c", TText})
	return pw, names, nil
}

// ---------------------------------------------------------------------
// C04 over MySQL

func c04MySQL(t *testing.T, plan *kernel.Plan, keepLog bool) *kernel.Result {
	w := kernel.NewWorld(plan, keepLog)
	Bubble(t, plan.Seed, func() {
		start := time.Now()
		rng := kernel.NewRNG(plan.Seed, 0xd04d)
		cols := drawCols(kernel.NewRNG(uint64(plan.Sw("colseed")), 4), "")
		pw, colNames, err := myColWorld(w, plan, rng, cols)
		if err != nil {
			w.Violate("C04", "world-builds", "mysql", err.Error())
			return
		}
		pw.WriteYield = plan.Sw("wyield") == 1
		type row struct {
			id    int
			plain string
			vals  []string
		}
		var script []Stmt
		var rows []*row
		var protectedMarks [][]byte
		ver := 0
		newRow := func() *row {
			ver++
			r := &row{id: len(rows) + 1, plain: fmt.Sprintf("plain-%d-%d", len(rows)+1, ver)}
			for _, c := range cols {
				v := marker(c, r.id, ver)
				r.vals = append(r.vals, v)
				protectedMarks = append(protectedMarks, []byte(v))
			}
			rows = append(rows, r)
			return r
		}
		for _, op := range plan.Ops {
			useArgs := op.Arg(0, 0) == 1
			mode := int(op.Arg(1, 0)) % 2
			switch op.Kind {
			case "insert", "insert-nocols", "insert-returning":
				r := newRow()
				st := myInsertStmt(colNames, r.id, r.plain, r.vals, cols, useArgs, mode)
				if op.Kind == "insert-nocols" {
					st.SQL = strings.Replace(st.SQL, "t1 ("+strings.Join(colNames, ", ")+")", "t1", 1)
				}
				st.Tag = op.Kind
				script = append(script, st)
			case "insert-multi":
				a, b := newRow(), newRow()
				s1 := myInsertStmt(colNames, a.id, a.plain, a.vals, cols, useArgs, mode)
				s2 := myInsertStmt(colNames, b.id, b.plain, b.vals, cols, useArgs, mode)
				s1.SQL += ", " + s2.SQL[strings.Index(s2.SQL, "VALUES ")+7:]
				s1.Args = append(s1.Args, s2.Args...)
				s1.Tag = op.Kind
				script = append(script, s1)
			case "db-error":
				script = append(script, Stmt{SQL: fmt.Sprintf("SELECT id, note FROM no_such_table WHERE id = %d", op.Arg(3, 0)), Tag: op.Kind})
			case "update":
				if len(rows) == 0 {
					continue
				}
				r := rows[int(op.Arg(3, 0))%len(rows)]
				ver++
				ci := int(op.Arg(1, 0)) % len(cols)
				nv := marker(cols[ci], r.id, ver)
				protectedMarks = append(protectedMarks, []byte(nv))
				r.vals[ci] = nv
				st := Stmt{Tag: op.Kind}
				if useArgs {
					st.Extended = true
					st.SQL = fmt.Sprintf("UPDATE t1 SET %s = ? WHERE id = %d", cols[ci].Name, r.id)
					st.Args = []interface{}{myArg(&cols[ci], nv, mode == 1)}
				} else {
					st.SQL = fmt.Sprintf("UPDATE t1 SET %s = %s WHERE id = %d", cols[ci].Name, myLiteral(cols[ci], nv, mode), r.id)
				}
				script = append(script, st)
			case "select", "select-star":
				if len(rows) == 0 {
					continue
				}
				r := rows[int(op.Arg(3, 0))%len(rows)]
				list := strings.Join(colNames, ", ")
				if op.Kind == "select-star" {
					list = "*"
				}
				st := Stmt{SQL: fmt.Sprintf("SELECT %s FROM t1 WHERE id = %d", list, r.id), Tag: "select"}
				if useArgs {
					st.Extended = true
					st.SQL = fmt.Sprintf("SELECT %s FROM t1 WHERE id = ?", list)
					st.Args = []interface{}{int64(r.id)}
				}
				script = append(script, st)
			}
		}
		const plainStmt = "INSERT INTO t2 (id, note) VALUES (1, 'MKnote-not-protected')"
		script = append(script, Stmt{SQL: plainStmt, Tag: "plain"})
		script = append(script, Stmt{SQL: "SELECT id, note FROM t2 WHERE id = 1", Tag: "plain-select"})
		for k, r := range rows {
			st := Stmt{SQL: fmt.Sprintf("SELECT %s FROM t1 WHERE id = %d", strings.Join(colNames, ", "), r.id), Tag: fmt.Sprintf("final:%d", r.id)}
			if (k+int(plan.Sw("colseed")))%2 == 1 {
				// binary protocol read-back
				st.Extended, st.SQL, st.Args = true, fmt.Sprintf("SELECT %s FROM t1 WHERE id = ?", strings.Join(colNames, ", ")), []interface{}{int64(r.id)}
			}
			script = append(script, st)
		}
		// consistent tokenization: the owner finds a row by the value of a tokenized column, bound as the second
		// parameter after a value for an ordinary column
		for k, r := range rows {
			if k >= 2 {
				break
			}
			for ci := range cols {
				if cols[ci].Token == "" {
					continue
				}
				script = append(script, Stmt{SQL: fmt.Sprintf("SELECT id FROM t1 WHERE plain = ? AND %s = ?", cols[ci].Name), Extended: true,
					Args: []interface{}{r.plain, myArg(&cols[ci], r.vals[ci], false)}, Tag: fmt.Sprintf("find:%d:%d", r.id, ci)})
			}
		}
		run := pw.RunSession(owner, script)
		if w.Res.Cut {
			return
		}
		for _, p := range pw.Panics {
			w.Violate("C14", "no-panic", "mysql/proxy", p)
		}
		keyFault := pw.KeyFaultFired()
		if keyFault {
			w.Res.Fired["keystore-io-error"]++
		}
		if pw.TokenFaultFired() {
			w.Res.Fired["token-store-io-error"]++
			keyFault = true
		}
		if plan.Sw("longdata") == 1 && plan.Sw("rawmy") == 1 {
			// parameters sent with COM_STMT_SEND_LONG_DATA: the packets are judged one by one
			longSeen := false
			if pkts, perr := splitMyPackets(run.ToDB.Log); perr == nil {
				for _, p := range pkts {
					if p.seq != 0 || len(p.payload) < 7 || p.payload[0] != 0x18 {
						continue
					}
					longSeen = true
					for _, m := range protectedMarks {
						// the value travels in two pieces: either half of a protected value in clear is a leak
						if len(m) >= 8 && (bytes.Contains(p.payload[7:], m[:len(m)/2]) || bytes.Contains(p.payload[7:], m[len(m)/2:])) && len(p.payload) > 7 {
							w.Violate("C04", "no-plaintext-to-database", "mysql/long-data-parameter", fmt.Sprintf("a COM_STMT_SEND_LONG_DATA packet forwarded to the database carries a piece of protected value %q in clear", m))
							break
						}
					}
				}
			}
			if longSeen {
				w.Probe("long-data-session")
				if run.Stuck || run.ClientErr != "" {
					w.Violate("C04", "session-makes-progress", "mysql/long-data-parameter", fmt.Sprintf("client error %q; proxy errors %v", run.ClientErr, run.ProxyErrs))
				}
				// (known finding: the proxy does not understand long data; what it does with the other
				// parameters of such an execution is not judged further)
				w.State(fmt.Sprintf("mysql cols=%v rows=%d longdata", len(cols), len(rows)))
				w.Res.SimNanos = int64(time.Since(start))
				return
			}
		}
		if (run.Stuck || run.ClientErr != "") && !keyFault {
			w.Violate("C04", "session-makes-progress", "mysql", fmt.Sprintf("stuck=%v after %d deliveries; client error %q; proxy errors %v", run.Stuck, run.Steps, run.ClientErr, run.ProxyErrs))
			return
		}
		toDB := run.ToDB.Log
		for _, m := range protectedMarks {
			for name, enc := range encodings(m) {
				if bytes.Contains(toDB, enc) {
					site := "mysql/" + name
					if pw.TokenFaultFired() {
						site = "mysql/token-store-fault"
					}
					w.Violate("C04", "no-plaintext-to-database", site, fmt.Sprintf("the database-side stream contains protected value %q (%s form)", m, name))
					break
				}
			}
		}
		if keyFault {
			// see the PostgreSQL variant: only "nothing protected in clear to the database" and "no other row's value"
			for i, st := range script {
				res := run.Results[i]
				if !strings.HasPrefix(st.Tag, "final:") || res.Err != "" || len(res.Rows) != 1 || len(res.Rows[0]) != len(colNames) {
					continue
				}
				var id int
				fmt.Sscanf(st.Tag[6:], "%d", &id)
				for ci, c := range cols {
					for _, other := range rows {
						if other.id != id && len(other.vals[ci]) >= 8 && string(res.Rows[0][2+ci]) == other.vals[ci] {
							w.Violate("C04", "owner-reads-original", "mysql/keystore-fault/"+c.describe(), fmt.Sprintf("row %d column %s came back as row %d's value", id, c.Name, other.id))
						}
					}
				}
			}
			w.Probe("keystore-fault-session")
			w.State(fmt.Sprintf("mysql cols=%v rows=%d keyfault", len(cols), len(rows)))
			w.Res.SimNanos = int64(time.Since(start))
			return
		}
		sawPlain := false
		for _, s := range pw.DB.Statements {
			if s == plainStmt {
				sawPlain = true
			}
		}
		if !sawPlain {
			w.Violate("C04", "uncovered-statement-unchanged", "mysql", "statement on an unconfigured table did not reach the database byte-identical")
		}
		for i, st := range script {
			res := run.Results[i]
			if st.Tag == "plain-select" {
				if len(res.Rows) != 1 || string(res.Rows[0][1]) != "MKnote-not-protected" {
					w.Violate("C04", "uncovered-column-unchanged", "mysql/t2", fmt.Sprintf("unconfigured table read back as %q", res.Rows))
				}
			}
			if strings.HasPrefix(st.Tag, "find:") {
				var id, ci int
				fmt.Sscanf(st.Tag, "find:%d:%d", &id, &ci)
				found := false
				for _, r := range res.Rows {
					found = found || (len(r) == 1 && string(r[0]) == strconv.Itoa(id))
				}
				if res.Err != "" || !found {
					w.Violate("C04", "owner-finds-row-by-tokenized-value", "mysql/"+cols[ci].describe(), fmt.Sprintf("%s with %v: err=%q rows=%q", st.SQL, st.Args, res.Err, res.Rows))
				}
			}
			if !strings.HasPrefix(st.Tag, "final:") {
				continue
			}
			var id int
			fmt.Sscanf(st.Tag[6:], "%d", &id)
			r := rows[id-1]
			if res.Err != "" || len(res.Rows) != 1 {
				w.Violate("C04", "owner-reads-original", "mysql/select", fmt.Sprintf("%s: err=%q rows=%d", st.SQL, res.Err, len(res.Rows)))
				continue
			}
			got := res.Rows[0]
			if len(got) != len(colNames) {
				w.Violate("C04", "owner-reads-original", "mysql/shape", fmt.Sprintf("%s: %d cells", st.SQL, len(got)))
				continue
			}
			if string(got[0]) != strconv.Itoa(r.id) || string(got[1]) != r.plain {
				w.Violate("C04", "uncovered-column-unchanged", "mysql", fmt.Sprintf("row %d: id/plain came back as %q/%q", r.id, got[0], got[1]))
			}
			for ci, c := range cols {
				if string(got[2+ci]) != r.vals[ci] {
					proto := "text"
					if st.Extended {
						proto = "binary"
					}
					w.Violate("C04", "owner-reads-original", "mysql/"+c.describe()+"/"+proto, fmt.Sprintf("row %d column %s: wrote %q, read %.80q (type %v)", r.id, c.Name, r.vals[ci], got[2+ci], res.MyTypes))
				}
			}
		}
		if plan.Sw("stranger") == 1 && len(rows) > 0 {
			var sscript []Stmt
			for _, r := range rows {
				sscript = append(sscript, Stmt{SQL: fmt.Sprintf("SELECT %s FROM t1 WHERE id = %d", strings.Join(colNames, ", "), r.id)})
			}
			srun := pw.RunSession(stranger, sscript)
			for _, m := range protectedMarks {
				if bytes.Contains(srun.ToClient.Log, m) || bytes.Contains(srun.ToClient.Log, []byte(hex.EncodeToString(m))) {
					w.Violate("C04", "stranger-never-gets-plaintext", "mysql", fmt.Sprintf("a client without keys received %q", m))
					break
				}
			}
			w.Probe("stranger-session")
		}
		w.Probe("mysql-session")
		w.State(fmt.Sprintf("mysql cols=%v rows=%d", len(cols), len(rows)))
		w.Res.SimNanos = int64(time.Since(start))
		w.Res.Trivial = len(rows) == 0
	})
	return w.Finish()
}

// ---------------------------------------------------------------------
// MySQL packet streams

type myPacket struct {
	seq     byte
	payload []byte
	raw     []byte // header + payload
}

// splitMyPackets splits a byte stream into MySQL packets (split payloads are kept as separate packets).
func splitMyPackets(stream []byte) ([]myPacket, error) {
	var out []myPacket
	for off := 0; off < len(stream); {
		if off+4 > len(stream) {
			return out, fmt.Errorf("stream ends inside a packet header at byte %d", off)
		}
		n := int(stream[off]) | int(stream[off+1])<<8 | int(stream[off+2])<<16
		if off+4+n > len(stream) {
			return out, fmt.Errorf("packet at byte %d declares %d bytes, %d remain", off, n, len(stream)-off-4)
		}
		out = append(out, myPacket{seq: stream[off+3], payload: stream[off+4 : off+4+n], raw: stream[off : off+4+n]})
		off += 4 + n
	}
	return out, nil
}

// myTextRow parses a text-protocol row into cells (nil = NULL).
func myTextRow(p []byte) ([][]byte, error) {
	var cells [][]byte
	for len(p) > 0 {
		if p[0] == 0xfb {
			cells = append(cells, nil)
			p = p[1:]
			continue
		}
		l, k, err := readLenencInt(p)
		if err != nil || uint64(len(p)-k) < l {
			return cells, fmt.Errorf("cell %d runs past the packet", len(cells))
		}
		cells = append(cells, p[k:k+int(l)])
		p = p[k+int(l):]
	}
	return cells, nil
}

// myBinaryRow parses a binary-protocol row given the column types of the result set.
func myBinaryRow(p []byte, types []byte) ([][]byte, error) {
	if len(p) < 1 || p[0] != 0x00 {
		return nil, fmt.Errorf("binary row does not start with 0x00")
	}
	nb := (len(types) + 7 + 2) / 8
	if len(p) < 1+nb {
		return nil, fmt.Errorf("binary row shorter than its NULL bitmap")
	}
	bitmap := p[1 : 1+nb]
	p = p[1+nb:]
	cells := make([][]byte, len(types))
	for i, t := range types {
		if bitmap[(i+2)/8]&(1<<(uint(i+2)%8)) != 0 {
			continue
		}
		var n int
		switch t {
		case myTypeTiny:
			n = 1
		case myTypeShort:
			n = 2
		case myTypeLong, myTypeFloat:
			n = 4
		case myTypeLongLong, myTypeDouble:
			n = 8
		default:
			l, k, err := readLenencInt(p)
			if err != nil || uint64(len(p)-k) < l {
				return cells, fmt.Errorf("cell %d runs past the packet", i)
			}
			cells[i] = append([]byte{}, p[k:k+int(l)]...)
			if cells[i] == nil {
				cells[i] = []byte{}
			}
			p = p[k+int(l):]
			continue
		}
		if len(p) < n {
			return cells, fmt.Errorf("cell %d runs past the packet", i)
		}
		cells[i] = p[:n]
		p = p[n:]
	}
	if len(p) != 0 {
		return cells, fmt.Errorf("%d bytes after the last cell", len(p))
	}
	return cells, nil
}

// myColumnType extracts the type byte of a column definition packet.
func myColumnType(p []byte) (byte, error) {
	for i := 0; i < 6; i++ { // catalog, schema, table, org_table, name, org_name
		l, k, err := readLenencInt(p)
		if err != nil || uint64(len(p)-k) < l {
			return 0, fmt.Errorf("column definition is malformed")
		}
		p = p[k+int(l):]
	}
	if len(p) < 13 || p[0] != 0x0c {
		return 0, fmt.Errorf("column definition is malformed (fixed part)")
	}
	return p[7], nil
}

// ---------------------------------------------------------------------
// C12 over MySQL

func c12MySQL(t *testing.T, plan *kernel.Plan, keepLog bool) *kernel.Result {
	w := kernel.NewWorld(plan, keepLog)
	Bubble(t, plan.Seed, func() {
		start := time.Now()
		rng := kernel.NewRNG(plan.Seed, 0xd12d)
		cols := drawCols(kernel.NewRNG(uint64(plan.Sw("colseed")), 4), "")
		pw, names, err := myColWorld(w, plan, rng, cols)
		if err != nil {
			w.Violate("C12", "world-builds", "mysql", err.Error())
			return
		}
		pw.maxSteps = 60000
		t2 := pw.DB.Tables["t2"]
		part := int(plan.Sw("part"))
		var script []Stmt
		rows := 0
		for i, op := range plan.Ops {
			n := c12Lens[int(op.Arg(1, 0))%len(c12Lens)]
			if plan.Sw("chunk") != 0 && n > 300 {
				n = 251
			}
			if plan.Sw("big") == 1 {
				n = []int{0xffffff - 20, 0xffffff - 5, 0xffffff, 0xffffff + 10}[int(op.Arg(3, 0))%4]
				pw.maxSteps = 1 << 30
			}
			val := strings.Repeat("v", n)
			prepared := op.Arg(2, 0) == 1
			if part == 1 && plan.Sw("big") == 1 {
				t2.Rows = append(t2.Rows, [][]byte{[]byte("1"), []byte(val), nil, []byte{}})
				script = append(script,
					Stmt{SQL: "SELECT id, note, b, c FROM t2 WHERE id = 1"},
					Stmt{SQL: "SELECT id, note, b, c FROM t2 WHERE id = ?", Extended: true, Args: []interface{}{int64(1)}},
					Stmt{SQL: "INSERT INTO t2 (id, note, b, c) VALUES (?, ?, NULL, '')", Extended: true, Args: []interface{}{int64(2), val}},
					Stmt{SQL: "SELECT id FROM t2 WHERE id = 2"})
				w.Probe("mysql-16MiB-boundary")
				continue
			}
			if part == 1 {
				t2.Rows = append(t2.Rows, [][]byte{[]byte(fmt.Sprint(i + 1)), []byte(val), nil, []byte{}})
				t2.Rows = append(t2.Rows, [][]byte{[]byte(fmt.Sprint(1000 + i)), nil, []byte(val), []byte("x")})
				st := Stmt{SQL: fmt.Sprintf("SELECT id, note, b, c FROM t2 WHERE id = %d OR id = %d", i+1, 1000+i)}
				if prepared {
					st = Stmt{SQL: "SELECT id, note, b, c FROM t2 WHERE id = ? OR id = ?", Extended: true, Args: []interface{}{int64(i + 1), int64(1000 + i)}}
				}
				switch op.Arg(0, 0) {
				case 1:
					st = Stmt{SQL: fmt.Sprintf("INSERT INTO t2 (id, note, b, c) VALUES (%d, %s, NULL, '')", 5000+i, sqlQuote(val))}
				case 2:
					st = Stmt{SQL: "UPDATE t2 SET note = ? WHERE id = ?", Extended: true, Args: []interface{}{val, int64(i + 1)}}
				case 3:
					st = Stmt{SQL: "SELECT id FROM no_such_table"}
				case 4:
					st = Stmt{SQL: "INSERT INTO t2 (id, note, b, c) VALUES (?, ?, ?, ?)", Extended: true, Args: []interface{}{int64(6000 + i), nil, []byte(val), ""}}
				}
				script = append(script, st)
				continue
			}
			rows++
			vals := make([]string, len(cols))
			for k, c := range cols {
				vals[k] = marker(c, rows, 1)
			}
			script = append(script, myInsertStmt(names, rows, "p", vals, cols, prepared, int(op.Arg(3, 0))%2))
			if op.Arg(0, 0)%2 == 0 {
				rows++
				script = append(script, Stmt{SQL: fmt.Sprintf("INSERT INTO t1 (id, plain) VALUES (%d, '')", rows)})
			}
			sel := Stmt{SQL: "SELECT * FROM t1"}
			if prepared {
				sel = Stmt{SQL: "SELECT * FROM t1 WHERE id > ?", Extended: true, Args: []interface{}{int64(0)}}
			}
			script = append(script, sel)
		}
		if part == 1 && plan.Sw("big") != 1 {
			// rows of 7, 8, 15 and 16 columns (NULLs included), text and binary protocol
			c14WideTables(pw)
			n := []int{7, 8, 15, 16}[int(plan.Seed>>3)%4]
			script = append(script, Stmt{SQL: fmt.Sprintf("SELECT * FROM w%d", n)},
				Stmt{SQL: fmt.Sprintf("SELECT * FROM w%d WHERE c0 <> ?", n), Extended: true, Args: []interface{}{"none"}})
		}
		run := pw.RunSession(owner, script)
		if w.Res.Cut {
			return
		}
		for _, p := range pw.Panics {
			w.Violate("C14", "no-panic", "mysql/proxy", p)
		}
		if run.Stuck || run.ClientErr != "" {
			w.Violate("C12", "session-completes", fmt.Sprintf("mysql/part%d", part), fmt.Sprintf("stuck=%v %q %v", run.Stuck, run.ClientErr, run.ProxyErrs))
			return
		}
		if part == 1 {
			if !bytes.Equal(run.FromCl.Log, run.ToDB.Log) {
				i := firstDiff(run.FromCl.Log, run.ToDB.Log)
				w.Violate("C12", "client-to-database-relayed-identically", "mysql", fmt.Sprintf("streams differ at byte %d: client sent %.40q, database got %.40q", i, tailAt(run.FromCl.Log, i), tailAt(run.ToDB.Log, i)))
			}
			if !bytes.Equal(run.FromDB.Log, run.ToClient.Log) {
				i := firstDiff(run.FromDB.Log, run.ToClient.Log)
				w.Violate("C12", "database-to-client-relayed-identically", "mysql", fmt.Sprintf("streams differ at byte %d: database sent %.40q, client got %.40q", i, tailAt(run.FromDB.Log, i), tailAt(run.ToClient.Log, i)))
			}
			w.Probe("mysql-relay-session")
		} else {
			c12MyCompare(w, run, len(cols))
			w.Probe("mysql-rewrite-session")
		}
		w.State(fmt.Sprintf("mysql part%d stmts=%d", part, len(script)))
		w.Res.SimNanos = int64(time.Since(start))
	})
	return w.Finish()
}

// c12MyCompare walks the command/response exchange of a session on both sides of the proxy.
// Requests: same packets in the same order with the same sequence numbers; COM_QUERY / COM_STMT_PREPARE
// may carry rewritten text, COM_STMT_EXECUTE rewritten values, everything else is byte-identical.
// Responses: same packets, same sequence numbers; rows keep their field count and NULL markers,
// the cells of columns that are not protected (the first two) keep their bytes; everything that is
// not a row or a column definition is byte-identical.
func c12MyCompare(w *kernel.World, run *SessionRun, nProtected int) {
	cl, e1 := splitMyPackets(run.FromCl.Log)
	db, e2 := splitMyPackets(run.ToDB.Log)
	if e1 != nil || e2 != nil {
		w.Violate("C12", "rewritten-messages-well-formed", "mysql/client-to-database", fmt.Sprintf("client side %v, database side %v", e1, e2))
		return
	}
	if len(cl) != len(db) {
		w.Violate("C12", "message-count-preserved", "mysql/client-to-database", fmt.Sprintf("client sent %d packets, database got %d", len(cl), len(db)))
		return
	}
	var cmds []byte // command byte of every request, in order (the first packet is the handshake response)
	for i := range cl {
		if cl[i].seq != db[i].seq {
			w.Violate("C12", "sequence-numbers-preserved", "mysql/client-to-database", fmt.Sprintf("packet %d: sequence number %d became %d", i, cl[i].seq, db[i].seq))
			return
		}
		if i == 0 {
			if !bytes.Equal(cl[i].raw, db[i].raw) {
				w.Violate("C12", "untouched-message-identical", "mysql/handshake-response", fmt.Sprintf("%.60q became %.60q", cl[i].raw, db[i].raw))
				return
			}
			continue
		}
		if len(cl[i].payload) == 0 || len(db[i].payload) == 0 {
			w.Violate("C12", "rewritten-messages-well-formed", "mysql/client-to-database", fmt.Sprintf("packet %d is empty", i))
			return
		}
		cmd := cl[i].payload[0]
		cmds = append(cmds, cmd)
		if db[i].payload[0] != cmd {
			w.Violate("C12", "untouched-message-identical", "mysql/command", fmt.Sprintf("packet %d: command 0x%02x became 0x%02x", i, cmd, db[i].payload[0]))
			return
		}
		switch cmd {
		case 0x03, 0x16: // text may be rewritten
		case 0x17:
			// statement id, flags, iteration count and the NULL bitmap stay
			if len(cl[i].payload) < 10 || len(db[i].payload) < 10 || !bytes.Equal(cl[i].payload[:10], db[i].payload[:10]) {
				w.Violate("C12", "untransformed-field-identical", "mysql/execute-header", fmt.Sprintf("packet %d: %.20q became %.20q", i, cl[i].payload, db[i].payload))
				return
			}
		default:
			if !bytes.Equal(cl[i].raw, db[i].raw) {
				w.Violate("C12", "untouched-message-identical", "mysql/client-to-database", fmt.Sprintf("packet %d (command 0x%02x): %.40q became %.40q", i, cmd, cl[i].raw, db[i].raw))
				return
			}
		}
	}
	// responses
	fromDB, e1 := splitMyPackets(run.FromDB.Log)
	toCl, e2 := splitMyPackets(run.ToClient.Log)
	if e1 != nil || e2 != nil {
		w.Violate("C12", "rewritten-messages-well-formed", "mysql/database-to-client", fmt.Sprintf("database side %v, client side %v", e1, e2))
		return
	}
	if len(fromDB) != len(toCl) {
		w.Violate("C12", "message-count-preserved", "mysql/database-to-client", fmt.Sprintf("database sent %d packets, client got %d", len(fromDB), len(toCl)))
		return
	}
	for i := range fromDB {
		if fromDB[i].seq != toCl[i].seq {
			w.Violate("C12", "sequence-numbers-preserved", "mysql/database-to-client", fmt.Sprintf("packet %d: sequence number %d became %d", i, fromDB[i].seq, toCl[i].seq))
			return
		}
	}
	same := func(i int, what string) bool {
		if !bytes.Equal(fromDB[i].raw, toCl[i].raw) {
			w.Violate("C12", "untouched-message-identical", "mysql/"+what, fmt.Sprintf("packet %d: %.50q became %.50q", i, fromDB[i].raw, toCl[i].raw))
			return false
		}
		return true
	}
	pos := 0
	next := func() (int, bool) {
		if pos >= len(fromDB) {
			return 0, false
		}
		pos++
		return pos - 1, true
	}
	isEOF := func(p []byte) bool { return len(p) > 0 && p[0] == 0xfe && len(p) < 9 }
	isErr := func(p []byte) bool { return len(p) > 0 && p[0] == 0xff }
	// handshake and the answer to the handshake response
	for k := 0; k < 2; k++ {
		i, ok := next()
		if !ok || !same(i, "handshake") {
			return
		}
	}
	resultSet := func(binaryRows bool) bool {
		i, ok := next()
		if !ok {
			return false
		}
		p := fromDB[i].payload
		if !same(i, "result-header") {
			return false
		}
		if len(p) == 0 || p[0] == 0x00 || isErr(p) {
			return true // OK or ERR: no rows
		}
		n, _, err := readLenencInt(p)
		if err != nil {
			return false
		}
		var dbTypes, clTypes []byte
		for k := 0; k < int(n); k++ {
			i, ok := next()
			if !ok {
				return false
			}
			dt, err1 := myColumnType(fromDB[i].payload)
			ct, err2 := myColumnType(toCl[i].payload)
			if err1 != nil || err2 != nil {
				w.Violate("C12", "rewritten-messages-well-formed", "mysql/column-definition", fmt.Sprintf("packet %d: database side %v, client side %v", i, err1, err2))
				return false
			}
			if k < 2 && !same(i, "column-definition") {
				return false
			}
			dbTypes, clTypes = append(dbTypes, dt), append(clTypes, ct)
		}
		if i, ok := next(); !ok || !isEOF(fromDB[i].payload) || !same(i, "eof") {
			return false
		}
		for {
			i, ok := next()
			if !ok {
				return false
			}
			p := fromDB[i].payload
			if isEOF(p) || isErr(p) {
				return same(i, "eof")
			}
			var dc, cc [][]byte
			var err1, err2 error
			if binaryRows {
				dc, err1 = myBinaryRow(p, dbTypes)
				cc, err2 = myBinaryRow(toCl[i].payload, clTypes)
			} else {
				dc, err1 = myTextRow(p)
				cc, err2 = myTextRow(toCl[i].payload)
			}
			if err1 != nil || err2 != nil {
				w.Violate("C12", "rewritten-messages-well-formed", "mysql/row", fmt.Sprintf("packet %d: database side %v, client side %v: %.60q", i, err1, err2, toCl[i].payload))
				return false
			}
			if len(dc) != len(cc) {
				w.Violate("C12", "field-count-preserved", "mysql/row", fmt.Sprintf("packet %d: %d fields became %d", i, len(dc), len(cc)))
				return false
			}
			for k := range dc {
				if (dc[k] == nil) != (cc[k] == nil) {
					w.Violate("C12", "null-markers-preserved", "mysql/row", fmt.Sprintf("packet %d field %d: NULL marker changed", i, k))
					return false
				}
				if k < 2 && !bytes.Equal(dc[k], cc[k]) {
					w.Violate("C12", "untransformed-field-identical", "mysql/row", fmt.Sprintf("packet %d field %d: %.30q became %.30q", i, k, dc[k], cc[k]))
					return false
				}
			}
		}
	}
	for _, cmd := range cmds {
		switch cmd {
		case 0x03:
			if !resultSet(false) {
				return
			}
		case 0x17:
			if !resultSet(true) {
				return
			}
		case 0x16:
			i, ok := next()
			if !ok {
				return
			}
			p := fromDB[i].payload
			if !same(i, "prepare-ok") {
				return
			}
			if isErr(p) || len(p) < 9 {
				continue
			}
			nCols := int(binary.LittleEndian.Uint16(p[5:]))
			nParams := int(binary.LittleEndian.Uint16(p[7:]))
			for _, n := range []int{nParams, nCols} {
				if n == 0 {
					continue
				}
				for k := 0; k <= n; k++ { // definitions + EOF
					i, ok := next()
					if !ok {
						return
					}
					if _, err := splitMyPackets(toCl[i].raw); err != nil {
						return
					}
				}
			}
		case 0x19, 0x18: // no response
		case 0x01:
			return
		default:
			i, ok := next()
			if !ok || !same(i, "response") {
				return
			}
		}
	}
}

// ---------------------------------------------------------------------
// C14 over MySQL

func c14MySQL(t *testing.T, plan *kernel.Plan, keepLog bool) *kernel.Result {
	w := kernel.NewWorld(plan, keepLog)
	Bubble(t, plan.Seed, func() {
		start := time.Now()
		rng := kernel.NewRNG(plan.Seed, 0xd14d)
		cols := drawCols(kernel.NewRNG(uint64(plan.Sw("colseed")), 4), "")
		pw, names, err := myColWorld(w, plan, rng, cols)
		if err != nil {
			w.Violate("C14", "world-builds", "mysql", err.Error())
			return
		}
		pw.maxSteps = 12000
		c14WideTables(pw)
		var script []Stmt
		rows := 0
		for _, op := range plan.Ops {
			switch op.Kind {
			case "wide", "wide-x":
				n := []int{7, 8, 15, 16}[int(op.Arg(0, 0))%4]
				st := Stmt{SQL: fmt.Sprintf("SELECT * FROM w%d", n)}
				if op.Kind == "wide-x" {
					st = Stmt{SQL: fmt.Sprintf("SELECT * FROM w%d WHERE c0 <> ?", n), Extended: true, Args: []interface{}{"none"}}
				}
				script = append(script, st)
			case "insert", "insert-x":
				rows++
				var vals []string
				for _, c := range cols {
					vals = append(vals, marker(c, rows, 1))
				}
				script = append(script, myInsertStmt(names, rows, "p", vals, cols, op.Kind == "insert-x", int(op.Arg(0, 0))%2))
			case "update":
				if rows > 0 {
					script = append(script, Stmt{SQL: fmt.Sprintf("UPDATE t1 SET %s = %s WHERE id = %d", cols[0].Name, myLiteral(cols[0], marker(cols[0], 1, 2), 0), 1)})
				}
			default:
				id := 1 + int(op.Arg(0, 0))%max(1, rows)
				st := Stmt{SQL: fmt.Sprintf("SELECT * FROM t1 WHERE id = %d", id)}
				if op.Kind == "select-x" {
					st = Stmt{SQL: "SELECT * FROM t1 WHERE id = ?", Extended: true, Args: []interface{}{int64(id)}}
				}
				script = append(script, st)
			}
		}
		if plan.Sw("cells") == 1 {
			pw.DB.Corrupt = c14CorruptCells()
		}
		var m0, m1 runtime.MemStats
		runtime.ReadMemStats(&m0)
		run := pw.RunSession(owner, script)
		runtime.ReadMemStats(&m1)
		if grown := m1.TotalAlloc - m0.TotalAlloc; grown > c14AllocLimit {
			w.Violate("C14", "allocation-bounded", "mysql/session", fmt.Sprintf("a session that exchanged %d bytes made the process allocate %d MiB", len(run.ToDB.Log)+len(run.FromDB.Log)+len(run.ToClient.Log)+len(run.FromCl.Log), grown>>20))
		}
		for i, p := range pw.Panics {
			stack := ""
			if i < len(pw.Stacks) {
				stack = pw.Stacks[i]
			}
			w.Violate("C14", "no-panic", "mysql/"+panicSite(stack), fmt.Sprintf("%s\n%.1500s", p, stack))
		}
		total := len(run.ToDB.Log) + len(run.FromDB.Log) + len(run.ToClient.Log) + len(run.FromCl.Log)
		if w.Res.Cut || run.Steps > 2*total+200 {
			w.Res.Cut = false
			w.Violate("C14", "session-terminates", "mysql", fmt.Sprintf("session still exchanging bytes after %d deliveries (%d bytes on all streams)", run.Steps, total))
		}
		if rng.Intn(3) == 0 {
			var texts []string
			for _, st := range script {
				texts = append(texts, st.SQL)
			}
			c14Decoders(w, rng, true, schemaYAML(cols), "version: 0.85.0\nhandlers:\n  - handler: deny\n    tables:\n      - t9\n  - handler: allowall\n", texts)
		}
		w.Probe("mysql-session")
		w.State(fmt.Sprintf("mysql faults=%d", len(plan.Faults)))
		w.Res.SimNanos = int64(time.Since(start))
	})
	return w.Finish()
}

// c14CorruptCells returns a storage fault: every protected cell that is read comes back damaged, the kind
// of damage cycling with the reads (truncated to half, one byte flipped, container length field set to all
// ones, extended, cut to a length around the size of a search hash).
func c14CorruptCells() func(table string, row, col int, cell []byte) []byte {
	n := 0
	return func(table string, row, col int, cell []byte) []byte {
		if col < 2 || len(cell) < 8 {
			return cell
		}
		n++
		c := append([]byte{}, cell...)
		switch n % 5 {
		case 4:
			return c[:min(len(c), 31+(n/5)%4)]
		case 0:
			return c[:len(c)/2]
		case 1:
			c[8+(n*7)%min(40, len(c)-8)] ^= 0xff
		case 2:
			for i := 4; i < 12 && i < len(c); i++ {
				c[i] = 0xff
			}
		default:
			c = append(c, c[:min(30, len(c))]...)
		}
		return c
	}
}

// c14WideTables adds tables of 7, 8, 15 and 16 text columns (the sizes around which NULL bitmaps of binary
// rows change their length), each with a row of values, a row of NULLs and a row whose last column is NULL.
func c14WideTables(pw *PgWorld) {
	for _, n := range []int{7, 8, 15, 16} {
		var cols []Col
		for i := 0; i < n; i++ {
			cols = append(cols, Col{fmt.Sprintf("c%d", i), TText})
		}
		t := pw.DB.AddTable(fmt.Sprintf("w%d", n), cols...)
		full, nulls, last := make([][]byte, n), make([][]byte, n), make([][]byte, n)
		for i := 0; i < n; i++ {
			full[i] = []byte(fmt.Sprintf("v%d", i))
			last[i] = []byte(fmt.Sprintf("w%d", i))
		}
		last[n-1] = nil
		nulls[0] = []byte("x")
		t.Rows = append(t.Rows, full, nulls, last)
	}
}
