package pxw

import (
	"fmt"

	"github.com/cossacklabs/acra/encryptor/base/config"
	"github.com/cossacklabs/acra/pseudonymization"
	"github.com/cossacklabs/acra/pseudonymization/common"
	"github.com/cossacklabs/acra/pseudonymization/storage"

	"verif/sim/kernel"
)

// C14, token requests against a store in an unusual but legal state: records that exist and cannot be read
// (disabled by the maintenance tool, or their value record removed under them). Whatever the request answers,
// it must end after a handful of store calls: a request that keeps writing records exhausts the store.

const c14TokenCallBudget = 200

type c14CountingStorage struct {
	common.TokenStorage
	calls int
}

var errC14TokenBudget = fmt.Errorf("simulated token store: the request used up its budget of %d store calls", c14TokenCallBudget)

func (s *c14CountingStorage) Save(id []byte, ctx common.TokenContext, data []byte) error {
	if s.calls++; s.calls > c14TokenCallBudget {
		return errC14TokenBudget
	}
	return s.TokenStorage.Save(id, ctx, data)
}

func (s *c14CountingStorage) Get(id []byte, ctx common.TokenContext) ([]byte, error) {
	if s.calls++; s.calls > c14TokenCallBudget {
		return nil, errC14TokenBudget
	}
	return s.TokenStorage.Get(id, ctx)
}

type c14TokenSetting struct {
	config.ColumnEncryptionSetting
	tt         common.TokenType
	consistent bool
}

func (s c14TokenSetting) ColumnName() string             { return "col" }
func (s c14TokenSetting) IsTokenized() bool              { return true }
func (s c14TokenSetting) IsConsistentTokenization() bool { return s.consistent }
func (s c14TokenSetting) GetTokenType() common.TokenType { return s.tt }

func c14Tokens(w *kernel.World, r *kernel.RNG, site string) {
	mem, err := storage.NewMemoryTokenStorage()
	if err != nil {
		return
	}
	store := &c14CountingStorage{TokenStorage: mem}
	anonymizer, err := pseudonymization.NewPseudoanonymizer(store)
	if err != nil {
		return
	}
	tokenizer, err := pseudonymization.NewDataTokenizer(anonymizer)
	if err != nil {
		return
	}
	types := []common.TokenType{common.TokenType_String, common.TokenType_Email, common.TokenType_Int32, common.TokenType_Int64, common.TokenType_Bytes}
	values := []string{"a value to tokenize", "first.last@example.org", "12345", "9876543210", "bytes\x00\x01\x02 to tokenize"}
	k := r.Intn(len(types))
	setting := c14TokenSetting{tt: types[k], consistent: r.Intn(4) != 0}
	ctx := common.TokenContext{ClientID: []byte(owner)}
	request := func(what string, f func() error) {
		store.calls = 0
		var pv interface{}
		func() {
			defer func() { pv = recover() }()
			_ = f()
		}()
		if pv != nil {
			w.Violate("C14", "no-panic", site+"/tokenizer/"+what, fmt.Sprint(pv))
		} else if store.calls > c14TokenCallBudget {
			w.Violate("C14", "request-ends", site+"/tokenizer/"+what, fmt.Sprintf("%s (type %s, consistent=%v) took more than %d store calls and was cut off", what, common.TokenType_name[int32(types[k])], setting.consistent, c14TokenCallBudget))
		}
	}
	var token []byte
	request("tokenize", func() error { var e error; token, e = tokenizer.Tokenize([]byte(values[k]), ctx, setting); return e })
	action := []common.TokenAction{common.TokenDisable, common.TokenRemove}[r.Intn(2)]
	_ = mem.VisitMetadata(func(int, common.TokenMetadata) (common.TokenAction, error) { return action, nil })
	request("tokenize-again-while-"+map[common.TokenAction]string{common.TokenDisable: "disabled", common.TokenRemove: "removed"}[action], func() error {
		_, e := tokenizer.Tokenize([]byte(values[k]), ctx, setting)
		return e
	})
	if token != nil {
		request("detokenize-while-unreadable", func() error { _, e := tokenizer.Detokenize(token, ctx, setting); return e })
	}
	w.Probe("token-requests-on-unreadable-records")
}
