package pxw

import (
	"fmt"
	"sort"
	"strconv"
	"strings"
	"testing"
	"time"

	"verif/sim/kernel"
)

// C09 with joins: two tables with searchable columns of different names. Rows are written through
// the proxy into both; the statements join the tables on the searchable columns (the condition is
// rewritten on both sides), combine a join with a search, and search the second table of a join.
func c09Join(t *testing.T, plan *kernel.Plan, keepLog bool) *kernel.Result {
	w := kernel.NewWorld(plan, keepLog)
	Bubble(t, plan.Seed, func() {
		start := time.Now()
		rng := kernel.NewRNG(plan.Seed, 0xd09d)
		env := []string{"acrablock", "acrastruct"}[plan.Sw("env")%2]
		col := colKind{Name: "c1", Envelope: env, Search: true}
		yaml := schemaYAML([]colKind{col}) +
			"  - table: t3\n    columns:\n      - id\n      - plain\n      - s1\n    encrypted:\n      - column: s1\n        crypto_envelope: " + env + "\n        searchable: true\n"
		mysql := plan.Sw("mysql") == 1
		dbms := map[bool]string{false: "pg", true: "mysql"}[mysql]
		pw, err := NewPgWorld(w, rng, PgWorldConfig{SchemaYAML: yaml, Clients: []string{owner, stranger}, ChunkMode: int(plan.Sw("chunk")),
			MySQL: mysql, MyDeprecateEOF: plan.Sw("depeof") == 1})
		if err != nil {
			w.Violate("C09", "world-builds", dbms+"/join", err.Error())
			return
		}
		pw.DB.AddTable("t1", Col{"id", TInt4}, Col{"plain", TText}, Col{"c1", TBytea})
		pw.DB.AddTable("t3", Col{"id", TInt4}, Col{"plain", TText}, Col{"s1", TBytea})
		var left, right []string
		var script []Stmt
		for _, op := range plan.Ops {
			if op.Kind != "row" {
				continue
			}
			v := c09Values[int(op.Arg(0, 0))%5]
			if len(left) <= len(right) {
				left = append(left, v)
				script = append(script, Stmt{SQL: fmt.Sprintf("INSERT INTO t1 (id, plain, c1) VALUES (%d, 'p', %s)", len(left), sqlQuote(v))})
			} else {
				right = append(right, v)
				script = append(script, Stmt{SQL: fmt.Sprintf("INSERT INTO t3 (id, plain, s1) VALUES (%d, 'p', %s)", len(right), sqlQuote(v))})
			}
		}
		nIns := len(script)
		type query struct {
			sql  string
			want func(l, r int) bool
		}
		var queries []query
		for _, op := range plan.Ops {
			if op.Kind != "search" {
				continue
			}
			v := c09Values[int(op.Arg(0, 0))%6]
			lit := sqlQuote(v)
			switch op.Arg(1, 0) % 4 {
			case 0:
				queries = append(queries, query{"SELECT a.id, b.id FROM t1 a JOIN t3 b ON a.c1 = b.s1",
					func(l, r int) bool { return left[l] == right[r] }})
			case 1:
				queries = append(queries, query{"SELECT a.id, b.id FROM t1 a JOIN t3 b ON a.c1 = b.s1 WHERE a.c1 = " + lit,
					func(l, r int) bool { return left[l] == right[r] && left[l] == v }})
			case 2:
				queries = append(queries, query{"SELECT a.id, b.id FROM t1 a JOIN t3 b ON a.id = b.id WHERE b.s1 = " + lit,
					func(l, r int) bool { return l == r && right[r] == v }})
			default:
				queries = append(queries, query{"SELECT a.id, b.id FROM t3 b JOIN t1 a ON b.s1 = a.c1 WHERE b.s1 <> " + lit,
					func(l, r int) bool { return left[l] == right[r] && right[r] != v }})
			}
		}
		for _, q := range queries {
			script = append(script, Stmt{SQL: q.sql})
		}
		run := pw.RunSession(owner, script)
		if w.Res.Cut {
			return
		}
		for _, p := range pw.Panics {
			w.Violate("C14", "no-panic", dbms+"/proxy", p)
		}
		site := dbms + "/join/" + env
		if run.Stuck || run.ClientErr != "" {
			w.Violate("C09", "session-completes", site, fmt.Sprintf("%q %v", run.ClientErr, run.ProxyErrs))
			return
		}
		for k, q := range queries {
			res := run.Results[nIns+k]
			var want, got []string
			for l := range left {
				for r := range right {
					if q.want(l, r) {
						want = append(want, fmt.Sprintf("%d-%d", l+1, r+1))
					}
				}
			}
			for _, row := range res.Rows {
				if len(row) == 2 {
					a, _ := strconv.Atoi(string(row[0]))
					b, _ := strconv.Atoi(string(row[1]))
					got = append(got, fmt.Sprintf("%d-%d", a, b))
				}
			}
			sort.Strings(want)
			sort.Strings(got)
			if res.Err != "" || strings.Join(got, ",") != strings.Join(want, ",") {
				shape := strings.SplitN(q.sql, " FROM ", 2)[1]
				if i := strings.Index(shape, "'"); i >= 0 {
					shape = shape[:i]
				}
				w.Violate("C09", "search-finds-exactly-matching-rows", site+"/"+slugText(shape), fmt.Sprintf("%q: got pairs %v err=%q, model says %v (t1 %q, t3 %q)", q.sql, got, res.Err, want, left, right))
			}
		}
		w.Probe("join-session")
		w.State(fmt.Sprintf("%s rows=%d/%d queries=%d", site, len(left), len(right), len(queries)))
		w.Res.SimNanos = int64(time.Since(start))
		w.Res.Trivial = len(queries) == 0
	})
	return w.Finish()
}
