package pxw

import (
	"bytes"
	"fmt"

	"verif/sim/kernel"
)

// c03SearchableRow: a stored row with two searchable cells, the first of them
// damaged (a flipped byte of the container, the index of another row, a cut
// tail), read through the proxy in the text or the binary result format. The
// damaged cell must arrive as it is stored (or the statement fails), and the
// intact cell next to it must arrive as its plaintext: what happens to one
// cell of a row must not leak into its neighbours.
func c03SearchableRow(w *kernel.World, plan *kernel.Plan, rng *kernel.RNG) {
	envs := []string{"acrablock", "acrastruct"}
	cols := []colKind{{Name: "c1", Envelope: envs[rng.Intn(2)], Search: true}, {Name: "c2", Envelope: envs[rng.Intn(2)], Search: true}}
	mysql := plan.Sw("mysql") == 1
	var pw *PgWorld
	var names []string
	var err error
	if mysql {
		pw, names, err = myColWorld(w, plan, rng, cols)
	} else {
		pw, names, err = colWorld(w, plan, rng, cols)
	}
	if err != nil {
		w.Violate("C03", "world-builds", "row", err.Error())
		return
	}
	dbms := "pg"
	if mysql {
		dbms = "mysql"
	}
	// the neighbour is not longer than the damaged value in row 1, longer in row 2
	vals := [][]string{{"ROW-ORIGINAL-searchable-value-one", "ROW-neighbour"}, {"ROW-short", "ROW-NEIGHBOUR-searchable-value-that-is-longer"}}
	var script []Stmt
	for i, v := range vals {
		if mysql {
			script = append(script, myInsertStmt(names, i+1, "p", v, cols, false, 0))
		} else {
			script = append(script, insertStmt(names, i+1, v, cols, false))
		}
	}
	run := pw.RunSession(owner, script)
	if w.Res.Cut {
		return
	}
	t1 := pw.DB.Tables["t1"]
	if run.Stuck || run.ClientErr != "" || len(t1.Rows) != 2 || len(t1.Rows[0][2]) < 40 || len(t1.Rows[1][2]) < 40 {
		w.Violate("C03", "protect-succeeds", dbms+"/searchable-row", fmt.Sprintf("%q %v rows=%d", run.ClientErr, run.ProxyErrs, len(t1.Rows)))
		return
	}
	which := rng.Intn(2) // the row whose first cell is damaged
	stored := t1.Rows[which][2]
	var damaged []byte
	kind := []string{"flip", "foreign-index", "cut"}[rng.Intn(3)]
	switch kind {
	case "flip":
		damaged = append([]byte{}, stored...)
		damaged[33+rng.Intn(len(damaged)-33)] ^= 1 << uint(rng.Intn(8))
	case "foreign-index":
		damaged = append(append([]byte{}, t1.Rows[1-which][2][:33]...), stored[33:]...)
	default:
		damaged = append([]byte{}, stored[:len(stored)-1-rng.Intn(8)]...)
	}
	t1.Rows[which][2] = damaged
	binaryRes := rng.Intn(2) == 1
	st := Stmt{SQL: fmt.Sprintf("SELECT id, plain, c1, c2 FROM t1 WHERE id = %d", which+1)}
	format := int16(0)
	if binaryRes {
		if mysql {
			st = Stmt{SQL: "SELECT id, plain, c1, c2 FROM t1 WHERE id = ?", Extended: true, Args: []interface{}{int64(which + 1)}}
		} else {
			st.Extended, st.ResultFormats, format = true, []int16{1}, 1
		}
	}
	site := fmt.Sprintf("%s/searchable-row/%s", dbms, kind)
	r2 := pw.RunSession(owner, []Stmt{st})
	if w.Res.Cut {
		return
	}
	for _, p := range pw.Panics {
		w.Violate("C03", "damaged-value-never-crashes", site, p)
	}
	res := r2.Results[0]
	if r2.Stuck || r2.ClientErr != "" || res.Err != "" || len(res.Rows) != 1 || len(res.Rows[0]) != 4 {
		// the statement failed as a whole: allowed for a damaged value, nothing was handed out
		w.Probe("searchable-row-statement-failed")
		return
	}
	c1, c2 := res.Rows[0][2], res.Rows[0][3]
	if !mysql {
		c1, c2 = decodeClientCell(17, format, c1), decodeClientCell(17, format, c2)
	}
	if !bytes.Equal(c1, damaged) {
		w.Violate("C03", "damaged-value-passes-through-unchanged", site, fmt.Sprintf("client received %d bytes %.40q for the damaged cell, stored are %d bytes %.40q (binary=%v)", len(c1), c1, len(damaged), damaged, binaryRes))
	}
	if string(c2) != vals[which][1] {
		w.Violate("C03", "neighbour-of-damaged-value-unaffected", site, fmt.Sprintf("the intact cell next to the damaged one arrived as %.60q, its plaintext is %q (binary=%v)", c2, vals[which][1], binaryRes))
	}
	w.Probe("searchable-row")
}
