package pxw

import (
	"bytes"
	"context"
	"encoding/binary"
	"fmt"
	"strings"
	"testing"
	"time"

	"github.com/cossacklabs/acra/acrablock"
	"github.com/cossacklabs/acra/acrastruct"
	translator "github.com/cossacklabs/acra/cmd/acra-translator/common"
	"github.com/cossacklabs/themis/gothemis/keys"

	"verif/sim/kernel"
	"verif/sim/ksw"
)

// C01, C02 and C03 share one world: the keystore (with a rotation history of
// the protecting client's keys between write and read), the real
// TranslatorService, the library calls, and the transparent column processor
// reached through a real proxy session that reads a stored cell from the
// simulated database (the protected value placed between drawn prefix and
// suffix bytes).

type cryptoWorld struct {
	pw   *PgWorld
	svc  *translator.TranslatorService
	ctx  context.Context
	w    *kernel.World
	prop string
}

// protect entry points
var protectEntries = []string{"lib-acrastruct", "lib-acrablock", "tr-encrypt", "tr-encrypt-sym", "tr-searchable", "tr-searchable-sym"}

type protected struct {
	entry string
	data  []byte // protected form
	hash  []byte // search hash (searchable entries)
	sym   bool
}

func newCryptoWorld(w *kernel.World, plan *kernel.Plan, rng *kernel.RNG, prop string) (*cryptoWorld, error) {
	cols := []colKind{{Name: "c1", Envelope: "acrablock"}, {Name: "c2", Envelope: "acrastruct"}}
	pw, err := NewPgWorld(w, rng, PgWorldConfig{SchemaYAML: schemaYAML(cols), Clients: []string{owner, stranger}, ChunkMode: int(plan.Sw("chunk")),
		MySQL: plan.Sw("mysql") == 1, MyDeprecateEOF: plan.Sw("depeof") == 1, KeystoreV2: plan.Sw("ksv2") == 1})
	if err != nil {
		return nil, err
	}
	pw.DB.AddTable("t1", Col{"id", TInt4}, Col{"plain", TText}, Col{"c1", TBytea}, Col{"c2", TBytea})
	svc, err := translator.NewTranslatorService(&translator.TranslatorData{Keystorage: pw.KS.KS, PoisonRecordCallbacks: pw.Poison, Tokenizer: pw.Tokenizer})
	if err != nil {
		return nil, err
	}
	return &cryptoWorld{pw: pw, svc: svc, ctx: context.Background(), w: w, prop: prop}, nil
}

func (cw *cryptoWorld) protect(entry string, client string, plain []byte) (*protected, error) {
	cid := []byte(client)
	p := &protected{entry: entry}
	var err error
	switch entry {
	case "lib-acrastruct":
		var pub *keys.PublicKey
		pub, err = cw.pw.KS.KS.GetClientIDEncryptionPublicKey(cid)
		if err == nil {
			p.data, err = acrastruct.CreateAcrastruct(plain, pub, nil)
		}
	case "lib-acrablock":
		var key []byte
		key, err = cw.pw.KS.KS.GetClientIDSymmetricKey(cid)
		if err == nil {
			p.data, err = acrablock.CreateAcraBlock(plain, key, nil)
			p.sym = true
		}
	case "tr-encrypt":
		p.data, err = cw.svc.Encrypt(cw.ctx, plain, cid, nil)
	case "tr-encrypt-sym":
		p.data, err = cw.svc.EncryptSym(cw.ctx, plain, cid, nil)
		p.sym = true
	case "tr-searchable":
		var r translator.SearchableResponse
		r, err = cw.svc.EncryptSearchable(cw.ctx, plain, cid, nil)
		p.data, p.hash = r.EncryptedData, r.Hash
	case "tr-searchable-sym":
		var r translator.SearchableResponse
		r, err = cw.svc.EncryptSymSearchable(cw.ctx, plain, cid, nil)
		p.data, p.hash, p.sym = r.EncryptedData, r.Hash, true
	}
	return p, err
}

// reveal runs every reveal entry point compatible with p and reports each
// result: name -> (bytes, error, panic).
type revealed struct {
	name  string
	out   []byte
	err   error
	panic interface{}
}

func (cw *cryptoWorld) reveal(p *protected, data, hash []byte, client string, prefix, suffix []byte, viaProxy bool) []revealed {
	cid := []byte(client)
	var out []revealed
	call := func(name string, f func() ([]byte, error)) {
		r := revealed{name: name}
		func() {
			defer func() {
				if x := recover(); x != nil {
					r.panic = x
				}
			}()
			r.out, r.err = f()
		}()
		out = append(out, r)
	}
	if p.sym {
		call("tr-decrypt-sym", func() ([]byte, error) { return cw.svc.DecryptSym(cw.ctx, data, cid, nil) })
		if p.hash != nil {
			call("tr-decrypt-searchable-sym", func() ([]byte, error) { return cw.svc.DecryptSymSearchable(cw.ctx, data, hash, cid, nil) })
		}
	} else {
		call("tr-decrypt", func() ([]byte, error) { return cw.svc.Decrypt(cw.ctx, data, cid, nil) })
		if p.hash != nil {
			call("tr-decrypt-searchable", func() ([]byte, error) { return cw.svc.DecryptSearchable(cw.ctx, data, hash, cid, nil) })
		}
	}
	if viaProxy {
		// the value sits in a stored cell between prefix and suffix; the client reads it through the proxy
		cell := append(append(append([]byte{}, prefix...), data...), suffix...)
		t1 := cw.pw.DB.Tables["t1"]
		col := 2
		if !p.sym {
			col = 3
		}
		row := [][]byte{[]byte("1"), []byte("p"), nil, nil}
		row[col] = cell
		t1.Rows = [][][]byte{row}
		name := []string{"", "", "c1", "c2"}[col]
		st := Stmt{SQL: "SELECT id, plain, " + name + " FROM t1 WHERE id = 1", Extended: true, ResultFormats: []int16{1}}
		if cw.pw.mysql {
			// MySQL hands binary columns over as they are in both row protocols; alternate between them
			st = Stmt{SQL: "SELECT id, plain, " + name + " FROM t1 WHERE id = 1"}
			if len(cell)%2 == 1 {
				st = Stmt{SQL: "SELECT id, plain, " + name + " FROM t1 WHERE id = ?", Extended: true, Args: []interface{}{int64(1)}}
			}
		}
		run := cw.pw.RunSession(client, []Stmt{st})
		r := revealed{name: "proxy-column"}
		if len(cw.pw.Panics) > 0 {
			r.panic = cw.pw.Panics[0]
			cw.pw.Panics = nil
		} else if len(run.Results) == 1 && len(run.Results[0].Rows) == 1 {
			got := run.Results[0].Rows[0][2]
			// strip the surrounding bytes again for comparison
			if bytes.HasPrefix(got, prefix) && bytes.HasSuffix(got, suffix) && len(got) >= len(prefix)+len(suffix) {
				r.out = got[len(prefix) : len(got)-len(suffix)]
			} else {
				r.out = got
				r.err = fmt.Errorf("surrounding bytes changed")
			}
		} else {
			cause := run.ClientErr
			if len(run.ProxyErrs) > 0 {
				cause = run.ProxyErrs[0]
			}
			r.err = fmt.Errorf("session failed: %s", cause)
		}
		out = append(out, r)
	}
	return out
}

var c01Lengths = []int{0, 1, 2, 13, 14, 18, 43, 44, 45, 46, 83, 84, 85, 136, 137, 138, 250, 251, 252, 255, 256, 300, 1000, 4096, 65535, 65536}

func c01Plain(r *kernel.RNG, class, lenIdx int, embed []byte) []byte {
	n := c01Lengths[lenIdx%len(c01Lengths)]
	switch class % 6 {
	case 0:
		return r.Bytes(n)
	case 1:
		return bytes.Repeat([]byte("%%%"), n/3+1)[:n]
	case 2:
		return bytes.Repeat([]byte("\"\"\"\"\"\"\"\""), n/8+1)[:n]
	case 3:
		return append(append(r.Bytes(n%20), embed...), r.Bytes(n%7)...) // a whole valid envelope inside
	case 4:
		return []byte(strings.Repeat("ключ\x00✓", n/10+1))[:n]
	default:
		return bytes.Repeat([]byte{0}, n)
	}
}

// ---------------------------------------------------------------------

type C01 struct{}

func (C01) ID() string { return "C01" }

func (C01) Explore(x *kernel.Explorer, seed uint64) {
	r := kernel.NewRNG(seed, 0xc01)
	for i := 0; i < 3 && !x.Expired(); i++ {
		plan := &kernel.Plan{Prop: "C01", Seed: kernel.Mix(seed, uint64(i)), Swarm: map[string]int64{"conc": int64(r.Intn(2)), "keyid": int64(r.Intn(4) / 3), "ksv2": int64(r.Intn(3) / 2), "mysql": int64(r.Intn(3) / 2), "depeof": int64(r.Intn(2)), "rawmy": int64(r.Intn(2)), "reexec": int64(r.Intn(2)), "wyield": int64(r.Intn(2)), "chunk": int64(r.Intn(4))}}
		n := 2 + r.Intn(6)
		for j := 0; j < n; j++ {
			plan.Ops = append(plan.Ops, kernel.Op{ID: j + 1, Kind: "roundtrip", A: []int64{
				int64(r.Intn(len(protectEntries))), int64(r.Intn(6)), int64(r.Intn(len(c01Lengths))), int64(r.Intn(3)), int64(r.Intn(30)), int64(r.Intn(30)), int64(r.Intn(4))}})
		}
		x.Exec(plan)
	}
}

func (C01) Run(t *testing.T, plan *kernel.Plan, keepLog bool) *kernel.Result {
	w := kernel.NewWorld(plan, keepLog)
	Bubble(t, plan.Seed, func() {
		start := time.Now()
		rng := kernel.NewRNG(plan.Seed, 0xd01c)
		cw, err := newCryptoWorld(w, plan, rng, "C01")
		if err != nil {
			w.Violate("C01", "world-builds", "pg", err.Error())
			return
		}
		other, _ := cw.protect("tr-encrypt-sym", stranger, []byte("another client's value"))
		for _, op := range plan.Ops {
			entry := protectEntries[int(op.Arg(0, 0))%len(protectEntries)]
			plain := c01Plain(rng, int(op.Arg(1, 0)), int(op.Arg(2, 0)), other.data)
			w.BeginOp(0, op)
			p, err := cw.protect(entry, owner, plain)
			if err != nil {
				if len(plain) != 0 {
					w.Violate("C01", "protect-succeeds", entry, fmt.Sprintf("plaintext of %d bytes: %v", len(plain), err))
				}
				w.EndOp(0, "protect failed")
				continue
			}
			if bytes.Equal(p.data, plain) {
				// the plaintext itself is structurally a protected value: it is passed
				// through instead of being wrapped (second sentence of the statement)
				w.Probe("plaintext-is-an-envelope-pass-through")
				w.EndOp(0, "pass-through")
				continue
			}
			// key history between write and read
			for k := int64(0); k < op.Arg(3, 0); k++ {
				time.Sleep(time.Second)
				kind := ksw.KStoragePair
				if p.sym {
					kind = ksw.KStorageSym
				}
				if err := cw.pw.KS.Generate(kind, []byte(owner)); err != nil {
					w.Violate("C01", "rotation-succeeds", entry, err.Error())
				}
			}
			if op.Arg(6, 0) == 1 {
				cw.pw.KS.Reset()
			}
			prefix, suffix := rng.Bytes(int(op.Arg(4, 0))), rng.Bytes(int(op.Arg(5, 0)))
			if op.Arg(4, 0)%3 == 0 {
				// the cell is the protected value alone: the revealed cell has exactly the plaintext's length
				// (the boundary lengths of the wire encodings are among the drawn ones)
				prefix, suffix = nil, nil
			}
			if op.Arg(6, 0) == 2 {
				prefix, suffix = []byte("%%%"), []byte("%%%\x00")
			}
			if op.Arg(6, 0) == 3 {
				prefix = []byte("\\xZZ-not-hex") // looks like the start of a hex-spelled bytea
			}
			viaProxy := len(plain) > 0 && (len(plain) <= 300 || plan.Sw("chunk") == 0)
			for _, r := range cw.reveal(p, p.data, p.hash, owner, prefix, suffix, viaProxy) {
				if w.Res.Cut {
					return
				}
				site := entry + "->" + r.name
				switch {
				case r.panic != nil:
					w.Violate("C14", "no-panic", "reveal/"+r.name, fmt.Sprint(r.panic))
				case r.err != nil && r.name == "proxy-column":
					w.Violate("C01", "owner-reveals-original", "proxy-column:"+slugText(r.err.Error()), fmt.Sprintf("plaintext of %d bytes between prefix %.12q and suffix %.12q: %v", len(plain), prefix, suffix, r.err))
				case r.err != nil:
					w.Violate("C01", "owner-reveals-original", site, fmt.Sprintf("plaintext class %d of %d bytes after %d rotations: %v", op.Arg(1, 0)%6, len(plain), op.Arg(3, 0), r.err))
				case !bytes.Equal(r.out, plain):
					w.Violate("C01", "owner-reveals-original", site, fmt.Sprintf("plaintext class %d of %d bytes after %d rotations: got %d bytes %.40q", op.Arg(1, 0)%6, len(plain), op.Arg(3, 0), len(r.out), r.out))
				}
			}
			// protecting what already is a protected value passes it through
			if strings.HasPrefix(entry, "tr-encrypt") {
				again, err := cw.protect(entry, owner, p.data)
				if err == nil && !bytes.Equal(again.data, p.data) {
					w.Violate("C01", "protected-input-passes-through", entry, fmt.Sprintf("a protected value of %d bytes was wrapped again into %d bytes", len(p.data), len(again.data)))
				}
			}
			w.EndOp(0, "ok")
			w.State(fmt.Sprintf("%s class=%d len=%d rot=%d", entry, op.Arg(1, 0)%6, len(plain), op.Arg(3, 0)))
		}
		if plan.Sw("conc") == 1 && plan.Sw("ksv2") == 0 && !w.Res.Cut {
			// requests of several clients side by side on one translator service: each gets its own value back
			c02Conc(w, cw, plan, "C01")
		}
		if plan.Sw("keyid") == 1 && plan.Sw("ksv2") == 0 && !w.Res.Cut {
			c01KeyIDCollision(w, cw, rng)
		}
		w.Res.SimNanos = int64(time.Since(start))
	})
	return w.Finish()
}

// ---------------------------------------------------------------------

type C02 struct{}

func (C02) ID() string { return "C02" }

func (C02) Explore(x *kernel.Explorer, seed uint64) {
	r := kernel.NewRNG(seed, 0xc02)
	for i := 0; i < 3 && !x.Expired(); i++ {
		plan := &kernel.Plan{Prop: "C02", Seed: kernel.Mix(seed, uint64(i)), Swarm: map[string]int64{"tls": int64(r.Intn(2)), "ksv2": int64(r.Intn(3) / 2), "mysql": int64(r.Intn(3) / 2), "depeof": int64(r.Intn(2)), "rawmy": int64(r.Intn(2)), "reexec": int64(r.Intn(2)), "wyield": int64(r.Intn(2)), "chunk": int64(r.Intn(4)), "conc": int64(r.Intn(2)), "colowner": int64(r.Intn(2))}}
		n := 2 + r.Intn(6)
		for j := 0; j < n; j++ {
			plan.Ops = append(plan.Ops, kernel.Op{ID: j + 1, Kind: "cross", A: []int64{
				int64(r.Intn(len(protectEntries))), int64(r.Intn(3)), int64(r.Intn(3)), int64(r.Intn(2))}})
		}
		x.Exec(plan)
	}
}

func (C02) Run(t *testing.T, plan *kernel.Plan, keepLog bool) *kernel.Result {
	w := kernel.NewWorld(plan, keepLog)
	Bubble(t, plan.Seed, func() {
		start := time.Now()
		rng := kernel.NewRNG(plan.Seed, 0xd02c)
		cw, err := newCryptoWorld(w, plan, rng, "C02")
		if err != nil {
			w.Violate("C02", "world-builds", "pg", err.Error())
			return
		}
		ks := cw.pw.KS
		for i, op := range plan.Ops {
			entry := protectEntries[int(op.Arg(0, 0))%len(protectEntries)]
			plain := []byte(fmt.Sprintf("SECRET-OF-A-%04d-%s", i, strings.Repeat("x", 8+i)))
			w.BeginOp(0, op)
			// key histories on both sides
			for k := int64(0); k < op.Arg(1, 0); k++ {
				time.Sleep(time.Second)
				_ = ks.Generate(ksw.KStoragePair, []byte(owner))
				_ = ks.Generate(ksw.KStorageSym, []byte(owner))
			}
			for k := int64(0); k < op.Arg(2, 0); k++ {
				time.Sleep(time.Second)
				_ = ks.Generate(ksw.KStoragePair, []byte(stranger))
				_ = ks.Generate(ksw.KStorageSym, []byte(stranger))
				_ = ks.Generate(ksw.KHmac, []byte(stranger))
			}
			p, err := cw.protect(entry, owner, plain)
			if err != nil {
				w.Violate("C02", "protect-succeeds", entry, err.Error())
				w.EndOp(0, "")
				continue
			}
			// B (other keys) and C (no keys at all) run every reveal operation on A's value
			for _, reader := range []string{stranger, nokeys} {
				hash := p.hash
				if hash != nil && op.Arg(3, 0) == 1 && reader == stranger {
					// B presents its own hash of the same plaintext
					if r, err := cw.svc.EncryptSymSearchable(cw.ctx, plain, []byte(stranger), nil); err == nil {
						hash = r.Hash
					}
				}
				for _, r := range cw.reveal(p, p.data, hash, reader, nil, nil, true) {
					site := entry + "->" + r.name + "/" + map[string]string{stranger: "other-keys", nokeys: "no-keys"}[reader]
					switch {
					case r.panic != nil:
						w.Violate("C14", "no-panic", "reveal/"+r.name, fmt.Sprint(r.panic))
					case r.err == nil && bytes.Contains(r.out, plain):
						w.Violate("C02", "other-identity-never-gets-plaintext", site, fmt.Sprintf("client %s revealed %q", reader, plain))
					case r.err == nil && !bytes.Equal(r.out, p.data):
						w.Violate("C02", "other-identity-gets-stored-form-unchanged", site, fmt.Sprintf("client %s got %d bytes that are neither an error nor the stored value", reader, len(r.out)))
					}
				}
			}
			w.EndOp(0, "ok")
			w.State(fmt.Sprintf("%s rotA=%d rotB=%d", entry, op.Arg(1, 0), op.Arg(2, 0)))
		}
		if plan.Sw("tls") == 1 {
			c02TLS(w, cw)
		}
		if plan.Sw("conc") == 1 && plan.Sw("ksv2") == 0 {
			c02Conc(w, cw, plan, "C02")
		}
		if plan.Sw("colowner") == 1 && !w.Res.Cut {
			c02ColumnOwner(w, plan, rng)
		}
		// different clients always get different keys
		seen := map[string]string{}
		for _, c := range []string{owner, stranger} {
			for _, kind := range []string{ksw.KStoragePair, ksw.KStorageSym, ksw.KHmac} {
				v, err := ks.ReadCurrent(kind, []byte(c))
				if err != nil {
					continue
				}
				if o, ok := seen[string(v.Secret)]; ok {
					w.Violate("C02", "distinct-clients-distinct-keys", kind, fmt.Sprintf("%s/%s shares key bytes with %s", c, kind, o))
				}
				seen[string(v.Secret)] = c + "/" + kind
			}
		}
		w.Res.SimNanos = int64(time.Since(start))
	})
	return w.Finish()
}

// ---------------------------------------------------------------------

type C03 struct{}

func (C03) ID() string { return "C03" }

func (C03) Explore(x *kernel.Explorer, seed uint64) {
	r := kernel.NewRNG(seed, 0xc03)
	for i := 0; i < 2 && !x.Expired(); i++ {
		plan := &kernel.Plan{Prop: "C03", Seed: kernel.Mix(seed, uint64(i)), Swarm: map[string]int64{"chunk": 0, "mysql": int64(r.Intn(3) / 2), "depeof": int64(r.Intn(2)), "rawmy": int64(r.Intn(2)), "reexec": int64(r.Intn(2)), "wyield": int64(r.Intn(2))}}
		for j := 0; j < 2; j++ {
			plan.Ops = append(plan.Ops, kernel.Op{ID: j + 1, Kind: "mutate", A: []int64{int64(r.Intn(len(protectEntries))), int64(r.Intn(3)), int64(r.Intn(1000))}})
		}
		x.Exec(plan)
	}
}

// mutations of a protected value (storage fault between write and read)
func c03Mutations(r *kernel.RNG, v, other []byte, exhaustive bool) [][]byte {
	var out [][]byte
	add := func(b []byte) { out = append(out, b) }
	step := 1
	if !exhaustive && len(v) > 120 {
		step = len(v)/120 + 1
	}
	for i := 0; i < len(v); i += step { // single-bit flips
		for _, bit := range []uint{0, 7} {
			m := append([]byte{}, v...)
			m[i] ^= 1 << bit
			add(m)
		}
	}
	for i := 0; i < len(v); i += step { // truncations
		add(append([]byte{}, v[:i]...))
	}
	add(append(append([]byte{}, v...), r.Bytes(1+r.Intn(9))...)) // extension
	// field edits: every aligned 8-, 4- and 2-byte field set to special values
	special := []uint64{0, 1, uint64(len(v)) - 1, uint64(len(v)), uint64(len(v)) + 1, 1<<31 - 1, 1 << 32, 1 << 63, ^uint64(0) - 3, ^uint64(0)}
	for off := 0; off+8 <= len(v) && off < 64; off++ {
		for _, s := range special {
			m := append([]byte{}, v...)
			binary.LittleEndian.PutUint64(m[off:], s)
			add(m)
		}
		if off+2 <= len(v) {
			for _, s := range []uint16{0, 1, 0xffff, uint16(len(v))} {
				m := append([]byte{}, v...)
				binary.LittleEndian.PutUint16(m[off:], s)
				add(m)
			}
		}
	}
	// 8-byte fields further into the value (the data length of an AcraStruct follows the public key and the
	// wrapped key) set to values at the edge of the signed range, where adding a header size wraps around
	for off := 64; off+8 <= len(v) && off < 220; off++ {
		for _, s := range []uint64{1<<63 - 1, 1<<63 - 1 - uint64(r.Intn(172)), 1 << 63, ^uint64(0)} {
			m := append([]byte{}, v...)
			binary.LittleEndian.PutUint64(m[off:], s)
			add(m)
		}
	}
	// 2-byte length fields set to values just below the length of the value (inner lengths count from
	// different header offsets, so a window of distances is drawn per run)
	for off := 0; off+2 <= len(v) && off < 64; off++ {
		for n := 0; n < 6; n++ {
			k := r.Intn(48)
			if k < len(v) {
				m := append([]byte{}, v...)
				binary.LittleEndian.PutUint16(m[off:], uint16(len(v)-k))
				add(m)
			}
		}
	}
	// splices with another valid value at several boundaries
	for _, cut := range []int{3, 11, 12, 13, 20, 21, 24, 45, 57, 84, 100} {
		if cut < len(v) && cut < len(other) {
			add(append(append([]byte{}, v[:cut]...), other[cut:]...))
			add(append(append([]byte{}, other[:cut]...), v[cut:]...))
		}
	}
	return out
}

func (C03) Run(t *testing.T, plan *kernel.Plan, keepLog bool) *kernel.Result {
	w := kernel.NewWorld(plan, keepLog)
	Bubble(t, plan.Seed, func() {
		start := time.Now()
		rng := kernel.NewRNG(plan.Seed, 0xd03c)
		cw, err := newCryptoWorld(w, plan, rng, "C03")
		if err != nil {
			w.Violate("C03", "world-builds", "pg", err.Error())
			return
		}
		for i, op := range plan.Ops {
			entry := protectEntries[int(op.Arg(0, 0))%len(protectEntries)]
			plain := []byte(fmt.Sprintf("ORIGINAL-%03d-%s", i, strings.Repeat("p", []int{1, 20, 150}[op.Arg(1, 0)%3])))
			otherPlain := []byte(fmt.Sprintf("OTHERVAL-%03d-%s", i, strings.Repeat("q", []int{1, 20, 150}[op.Arg(1, 0)%3])))
			p, err := cw.protect(entry, owner, plain)
			p2, err2 := cw.protect(entry, owner, otherPlain)
			if err != nil || err2 != nil {
				w.Violate("C03", "protect-succeeds", entry, fmt.Sprint(err, err2))
				continue
			}
			muts := c03Mutations(rng, p.data, p2.data, len(p.data) <= 300)
			w.Res.Extra["mutations"] += int64(len(muts))
			check := func(name string, rs []revealed, what string) bool {
				for _, r := range rs {
					site := entry + "->" + r.name
					switch {
					case r.panic != nil:
						w.Violate("C03", "damaged-value-never-crashes", site, fmt.Sprintf("%s: %v", what, r.panic))
						return false
					case r.err == nil && r.name != "proxy-column" && !bytes.Equal(r.out, plain):
						w.Violate("C03", "damaged-value-never-misdecrypts", site, fmt.Sprintf("%s: revealed %.40q instead of failing (original %.20q)", what, r.out, plain))
						return false
					}
				}
				return true
			}
			for k, m := range muts {
				if bytes.Equal(m, p.data) || bytes.Equal(m, p2.data) {
					continue // not a damaged value: one of the two valid values
				}
				viaProxy := k%23 == 0 // the proxy path is ~100x more expensive; sampled
				var prefix, suffix []byte
				if k%46 == 0 {
					// the damaged value sits inside a larger cell (the scan for embedded values is another code path)
					prefix, suffix = []byte("cell-prefix "), []byte(" cell-suffix")
				}
				if !viaProxy && k%7 == 3 && len(m) > 150 {
					// 8-byte fields deep in the value are rare among the sampled mutations: the ones at the edge
					// of the signed range go through the proxy as an embedded value as well
					if n := len(m); n >= 8 {
						for off := 64; off+8 <= n && off < 220; off++ {
							if v := binary.LittleEndian.Uint64(m[off:]); v >= 1<<63-200 && v < 1<<63 && !bytes.Equal(m[off:off+8], p.data[off:off+8]) {
								viaProxy, prefix, suffix = true, []byte("cell-prefix "), []byte(" cell-suffix")
								break
							}
						}
					}
				}
				rs := cw.reveal(p, m, p.hash, owner, prefix, suffix, viaProxy)
				if !check("mut", rs, fmt.Sprintf("mutation %d of %d (%d -> %d bytes)", k, len(muts), len(p.data), len(m))) {
					break
				}
				if viaProxy {
					// transparent processing hands a damaged value over unchanged (or reveals the original)
					last := rs[len(rs)-1]
					if last.panic == nil && last.err == nil && !bytes.Equal(last.out, m) && !bytes.Contains(last.out, plain) {
						// a splice may contain a complete valid value of the same client: then that value's plaintext appears
						if !bytes.Contains(last.out, otherPlain) {
							w.Violate("C03", "damaged-value-passes-through-unchanged", entry+"->proxy-column", fmt.Sprintf("mutation %d: client received %d bytes, neither the damaged value (%d bytes) nor the original", k, len(last.out), len(m)))
							break
						}
					}
				}
			}
			// a swapped search hash
			if p.hash != nil && p2.hash != nil {
				check("swap", cw.reveal(p, p.data, p2.hash, owner, nil, nil, false)[1:], "search hash of another value")
			}
			w.State(fmt.Sprintf("%s len=%d", entry, len(p.data)))
		}
		if !w.Res.Cut {
			c03SearchableRow(w, plan, rng)
		}
		w.Res.SimNanos = int64(time.Since(start))
	})
	return w.Finish()
}
