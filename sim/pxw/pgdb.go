package pxw

import (
	"bytes"
	"encoding/binary"
	"encoding/hex"
	"fmt"
	"io"
	"strconv"
	"strings"

	pg_query "github.com/cossacklabs/pg_query_go/v5"
	"github.com/jackc/pgx/v5/pgproto3"
)

// PgDB is the simulated PostgreSQL server: an in-memory table store that
// speaks the server side of the wire protocol (pgproto3) and evaluates the
// statement subset of DESIGN.md §3 using the pg_query parser (a dependency,
// not Acra code).

// column types
const (
	TBytea = "bytea"
	TText  = "text"
	TInt4  = "int4"
	TInt8  = "int8"
)

var typeOID = map[string]uint32{TBytea: 17, TText: 25, TInt4: 23, TInt8: 20}

// Col is a column definition.
type Col struct {
	Name string
	Type string
}

// Table is a stored table. A nil cell is NULL.
type Table struct {
	Name string
	Cols []Col
	Rows [][][]byte
}

func (t *Table) colIndex(name string) int {
	for i, c := range t.Cols {
		if strings.EqualFold(c.Name, name) {
			return i
		}
	}
	return -1
}

// PgDB holds tables and everything it received.
type PgDB struct {
	Tables map[string]*Table
	// Statements is the text of every statement that arrived (simple or Parse).
	Statements []string
	// ParamsSeen are bound parameter values as they arrived.
	ParamsSeen [][]byte
	Errors     []string
	// Corrupt, when set, alters a stored cell between write and read
	// (storage fault): table, row, column -> new bytes.
	Corrupt func(table string, row, col int, cell []byte) []byte
	// Unsupported counts statements outside the subset.
	Unsupported int
	// ExtraMessages: asynchronous/extra backend messages the DB emits before
	// answering statement n (relay oracle, C12).
	ExtraBefore map[int][]pgproto3.BackendMessage
	stmtCount   int
	// MySQL switches literal semantics to MySQL's: X'..' is a hexadecimal literal and a
	// string literal stored into a binary column is taken as it is (mydb.go serves the wire protocol).
	MySQL bool
	// MyDeprecateEOF: the simulated MySQL server offers CLIENT_DEPRECATE_EOF.
	MyDeprecateEOF bool
}

// NewPgDB makes an empty database.
func NewPgDB() *PgDB {
	return &PgDB{Tables: map[string]*Table{}, ExtraBefore: map[int][]pgproto3.BackendMessage{}}
}

// AddTable defines a table.
func (db *PgDB) AddTable(name string, cols ...Col) *Table {
	t := &Table{Name: name, Cols: cols}
	db.Tables[strings.ToLower(name)] = t
	return t
}

type prepared struct {
	query     string
	paramOIDs []uint32
}

type portal struct {
	stmt          *prepared
	params        [][]byte
	paramFormats  []int16
	resultFormats []int16
	// a portal executed with a row limit keeps its result and position (PortalSuspended)
	res *pgResult
	pos int
}

// result of executing one statement
type pgResult struct {
	fields []pgproto3.FieldDescription
	cols   []string // column types
	rows   [][][]byte
	tag    string
	err    string
	table  string // table the result columns come from
}

// Serve runs one backend session on conn until EOF.
func (db *PgDB) Serve(conn io.ReadWriter) error {
	be := pgproto3.NewBackend(conn, conn)
	// startup (possibly preceded by an SSL request)
	for {
		msg, err := be.ReceiveStartupMessage()
		if err != nil {
			return err
		}
		if _, ok := msg.(*pgproto3.SSLRequest); ok {
			if _, err := conn.Write([]byte("N")); err != nil {
				return err
			}
			continue
		}
		break
	}
	be.Send(&pgproto3.AuthenticationOk{})
	be.Send(&pgproto3.ParameterStatus{Name: "server_version", Value: "14.0 (simulated)"})
	be.Send(&pgproto3.ParameterStatus{Name: "client_encoding", Value: "UTF8"})
	be.Send(&pgproto3.ParameterStatus{Name: "standard_conforming_strings", Value: "on"})
	be.Send(&pgproto3.BackendKeyData{ProcessID: 4242, SecretKey: 2424})
	be.Send(&pgproto3.ReadyForQuery{TxStatus: 'I'})
	if err := be.Flush(); err != nil {
		return err
	}
	stmts := map[string]*prepared{}
	portals := map[string]*portal{}
	failed := false // extended protocol: skip until Sync after an error
	for {
		msg, err := safeReceive(be.Receive)
		if err != nil {
			return err
		}
		switch m := msg.(type) {
		case *pgproto3.Query:
			db.emitExtras(be)
			db.Statements = append(db.Statements, m.String)
			res := db.exec(m.String, nil, nil)
			db.sendResult(be, res, nil, true)
			be.Send(&pgproto3.ReadyForQuery{TxStatus: 'I'})
		case *pgproto3.Parse:
			if failed {
				continue
			}
			db.Statements = append(db.Statements, m.Query)
			stmts[m.Name] = &prepared{query: m.Query, paramOIDs: append([]uint32(nil), m.ParameterOIDs...)}
			be.Send(&pgproto3.ParseComplete{})
		case *pgproto3.Bind:
			if failed {
				continue
			}
			st, ok := stmts[m.PreparedStatement]
			if !ok {
				be.Send(&pgproto3.ErrorResponse{Severity: "ERROR", Code: "26000", Message: "prepared statement does not exist"})
				failed = true
				continue
			}
			p := &portal{stmt: st, paramFormats: append([]int16(nil), m.ParameterFormatCodes...), resultFormats: append([]int16(nil), m.ResultFormatCodes...)}
			for _, v := range m.Parameters {
				if v == nil {
					p.params = append(p.params, nil)
				} else {
					c := append([]byte{}, v...)
					p.params = append(p.params, c)
					db.ParamsSeen = append(db.ParamsSeen, c)
				}
			}
			portals[m.DestinationPortal] = p
			be.Send(&pgproto3.BindComplete{})
		case *pgproto3.Describe:
			if failed {
				continue
			}
			var q string
			var rf []int16
			if m.ObjectType == 'S' {
				st, ok := stmts[m.Name]
				if !ok {
					be.Send(&pgproto3.ErrorResponse{Severity: "ERROR", Code: "26000", Message: "prepared statement does not exist"})
					failed = true
					continue
				}
				q = st.query
				be.Send(&pgproto3.ParameterDescription{ParameterOIDs: db.paramTypes(q, st.paramOIDs)})
			} else {
				p, ok := portals[m.Name]
				if !ok {
					be.Send(&pgproto3.ErrorResponse{Severity: "ERROR", Code: "34000", Message: "portal does not exist"})
					failed = true
					continue
				}
				q, rf = p.stmt.query, p.resultFormats
			}
			fields, _ := db.describe(q)
			if fields == nil {
				be.Send(&pgproto3.NoData{})
			} else {
				applyFormats(fields, rf)
				be.Send(&pgproto3.RowDescription{Fields: fields})
			}
		case *pgproto3.Execute:
			if failed {
				continue
			}
			p, ok := portals[m.Portal]
			if !ok {
				be.Send(&pgproto3.ErrorResponse{Severity: "ERROR", Code: "34000", Message: "portal does not exist"})
				failed = true
				continue
			}
			if p.res == nil {
				db.emitExtras(be)
				p.res = db.exec(p.stmt.query, p.params, p.paramFormats)
			}
			res := p.res
			if res.err != "" {
				failed = true
			}
			if m.MaxRows > 0 && res.err == "" && res.fields != nil {
				// a slice of the rows; the portal is suspended when the limit was reached
				part := *res
				end := min(len(res.rows), p.pos+int(m.MaxRows))
				part.rows = res.rows[p.pos:end]
				suspended := end-p.pos == int(m.MaxRows)
				p.pos = end
				db.sendRows(be, &part, p.resultFormats)
				if suspended {
					be.Send(&pgproto3.PortalSuspended{})
				} else {
					be.Send(&pgproto3.CommandComplete{CommandTag: []byte(fmt.Sprintf("SELECT %d", len(part.rows)))})
				}
			} else {
				db.sendResult(be, res, p.resultFormats, false)
				p.res, p.pos = nil, 0
			}
		case *pgproto3.Sync:
			failed = false
			be.Send(&pgproto3.ReadyForQuery{TxStatus: 'I'})
		case *pgproto3.Flush:
		case *pgproto3.Close:
			if m.ObjectType == 'S' {
				delete(stmts, m.Name)
			} else {
				delete(portals, m.Name)
			}
			be.Send(&pgproto3.CloseComplete{})
		case *pgproto3.Terminate:
			return nil
		default:
			be.Send(&pgproto3.ErrorResponse{Severity: "ERROR", Code: "0A000", Message: fmt.Sprintf("simulated database: message %T not supported", m)})
			be.Send(&pgproto3.ReadyForQuery{TxStatus: 'I'})
		}
		if err := be.Flush(); err != nil {
			return err
		}
	}
}

func (db *PgDB) emitExtras(be *pgproto3.Backend) {
	for _, m := range db.ExtraBefore[db.stmtCount] {
		be.Send(m)
	}
	db.stmtCount++
}

func applyFormats(fields []pgproto3.FieldDescription, rf []int16) {
	for i := range fields {
		fields[i].Format = formatFor(rf, i)
	}
}

func formatFor(rf []int16, i int) int16 {
	switch len(rf) {
	case 0:
		return 0
	case 1:
		return rf[0]
	}
	if i < len(rf) {
		return rf[i]
	}
	return 0
}

func (db *PgDB) sendResult(be *pgproto3.Backend, res *pgResult, rf []int16, withDescription bool) {
	if res.err != "" {
		db.Errors = append(db.Errors, res.err)
		be.Send(&pgproto3.ErrorResponse{Severity: "ERROR", Code: "42000", Message: res.err})
		return
	}
	if res.fields != nil {
		if withDescription {
			fields := append([]pgproto3.FieldDescription(nil), res.fields...)
			applyFormats(fields, rf)
			be.Send(&pgproto3.RowDescription{Fields: fields})
		}
		db.sendRows(be, res, rf)
	}
	be.Send(&pgproto3.CommandComplete{CommandTag: []byte(res.tag)})
}

func (db *PgDB) sendRows(be *pgproto3.Backend, res *pgResult, rf []int16) {
	for _, row := range res.rows {
		out := make([][]byte, len(row))
		for i, cell := range row {
			if cell == nil {
				continue
			}
			out[i] = encodeCell(res.cols[i], cell, formatFor(rf, i))
		}
		be.Send(&pgproto3.DataRow{Values: out})
	}
}

// encodeCell renders a stored (canonical) cell in a result format.
func encodeCell(typ string, cell []byte, format int16) []byte {
	if format == 1 {
		switch typ {
		case TInt4:
			n, _ := strconv.ParseInt(string(cell), 10, 64)
			b := make([]byte, 4)
			binary.BigEndian.PutUint32(b, uint32(int32(n)))
			return b
		case TInt8:
			n, _ := strconv.ParseInt(string(cell), 10, 64)
			b := make([]byte, 8)
			binary.BigEndian.PutUint64(b, uint64(n))
			return b
		}
		return append([]byte{}, cell...)
	}
	if typ == TBytea {
		return []byte("\\x" + hex.EncodeToString(cell))
	}
	return append([]byte{}, cell...)
}

// decodeBytea parses PostgreSQL bytea input (hex or escape format).
func decodeBytea(text []byte) ([]byte, error) {
	if bytes.HasPrefix(text, []byte("\\x")) {
		return hex.DecodeString(string(text[2:]))
	}
	out := make([]byte, 0, len(text))
	for i := 0; i < len(text); i++ {
		c := text[i]
		if c != '\\' {
			out = append(out, c)
			continue
		}
		if i+1 < len(text) && text[i+1] == '\\' {
			out = append(out, '\\')
			i++
			continue
		}
		if i+3 < len(text) {
			n, err := strconv.ParseUint(string(text[i+1:i+4]), 8, 8)
			if err == nil {
				out = append(out, byte(n))
				i += 3
				continue
			}
		}
		return nil, fmt.Errorf("invalid input syntax for type bytea")
	}
	return out, nil
}

// value is an evaluated expression.
type value struct {
	null   bool
	b      []byte // text form (literals, text params) or raw (binary params)
	binary bool   // b is a binary-format parameter
}

// toCell converts an evaluated value to the canonical stored form of a column.
func (db *PgDB) toCell(typ string, v value) ([]byte, error) {
	if db != nil && db.MySQL && !v.null && !v.binary && typ == TBytea {
		return append([]byte{}, v.b...), nil
	}
	return toCell(typ, v)
}

func toCell(typ string, v value) ([]byte, error) {
	if v.null {
		return nil, nil
	}
	switch typ {
	case TBytea:
		if v.binary {
			return append([]byte{}, v.b...), nil
		}
		return decodeBytea(v.b)
	case TInt4, TInt8:
		if v.binary {
			switch len(v.b) {
			case 4:
				return []byte(strconv.FormatInt(int64(int32(binary.BigEndian.Uint32(v.b))), 10)), nil
			case 8:
				return []byte(strconv.FormatInt(int64(binary.BigEndian.Uint64(v.b)), 10)), nil
			}
			return nil, fmt.Errorf("incorrect binary data format for integer")
		}
		n, err := strconv.ParseInt(strings.TrimSpace(string(v.b)), 10, 64)
		if err != nil {
			return nil, fmt.Errorf("invalid input syntax for type integer: %q", v.b)
		}
		if typ == TInt4 && (n > 2147483647 || n < -2147483648) {
			return nil, fmt.Errorf("integer out of range")
		}
		return []byte(strconv.FormatInt(n, 10)), nil
	}
	return append([]byte{}, v.b...), nil
}

type evalCtx struct {
	db      *PgDB
	params  [][]byte
	formats []int16
	table   *Table
	row     [][]byte
	bound   []boundTable // joins: every table of the FROM clause with its current row
}

// boundTable is one table of a join with the row under consideration.
type boundTable struct {
	alias string
	t     *Table
	row   [][]byte
}

// resolve finds the table, row and column a column reference names.
func (e *evalCtx) resolve(cr *pg_query.ColumnRef) (*Table, [][]byte, int, error) {
	name := sval(cr.Fields[len(cr.Fields)-1])
	if len(e.bound) == 0 {
		if e.table == nil {
			return nil, nil, -1, fmt.Errorf("column reference outside of a row")
		}
		i := e.table.colIndex(name)
		if i < 0 {
			return nil, nil, -1, fmt.Errorf("column %q does not exist", name)
		}
		return e.table, e.row, i, nil
	}
	qual := ""
	if len(cr.Fields) >= 2 {
		qual = strings.ToLower(sval(cr.Fields[len(cr.Fields)-2]))
	}
	for _, b := range e.bound {
		if qual != "" && qual != strings.ToLower(b.alias) && qual != strings.ToLower(b.t.Name) {
			continue
		}
		if i := b.t.colIndex(name); i >= 0 {
			return b.t, b.row, i, nil
		}
	}
	return nil, nil, -1, fmt.Errorf("column %q does not exist", name)
}

func sval(n *pg_query.Node) string {
	if s := n.GetString_(); s != nil {
		return s.Sval
	}
	return ""
}

func (e *evalCtx) colType(n *pg_query.Node) string {
	if n == nil {
		return ""
	}
	if tc := n.GetTypeCast(); tc != nil {
		return e.colType(tc.Arg)
	}
	if cr := n.GetColumnRef(); cr != nil && len(cr.Fields) > 0 {
		if t, _, i, err := e.resolve(cr); err == nil {
			return t.Cols[i].Type
		}
	}
	if fc := n.GetFuncCall(); fc != nil && len(fc.Args) > 0 {
		return e.colType(fc.Args[0])
	}
	return ""
}

// eval evaluates an expression to a value; want is the type context.
func (e *evalCtx) eval(n *pg_query.Node) (value, error) {
	switch {
	case n == nil:
		return value{null: true}, nil
	case n.GetAConst() != nil:
		c := n.GetAConst()
		if c.Isnull {
			return value{null: true}, nil
		}
		switch v := c.Val.(type) {
		case *pg_query.A_Const_Ival:
			return value{b: []byte(strconv.FormatInt(int64(v.Ival.Ival), 10))}, nil
		case *pg_query.A_Const_Fval:
			return value{b: []byte(v.Fval.Fval)}, nil
		case *pg_query.A_Const_Sval:
			return value{b: []byte(v.Sval.Sval)}, nil
		case *pg_query.A_Const_Bsval:
			if e.db != nil && e.db.MySQL && len(v.Bsval.Bsval) > 0 && (v.Bsval.Bsval[0] == 'x' || v.Bsval.Bsval[0] == 'X') {
				raw, err := hex.DecodeString(v.Bsval.Bsval[1:])
				if err != nil {
					return value{}, fmt.Errorf("incorrect hexadecimal literal")
				}
				return value{b: raw, binary: true}, nil
			}
			return value{b: []byte(v.Bsval.Bsval)}, nil
		case *pg_query.A_Const_Boolval:
			if v.Boolval.Boolval {
				return value{b: []byte("t")}, nil
			}
			return value{b: []byte("f")}, nil
		}
		return value{b: []byte("0")}, nil // Ival 0 is encoded as an empty oneof
	case n.GetParamRef() != nil:
		i := int(n.GetParamRef().Number) - 1
		if i < 0 || i >= len(e.params) {
			return value{}, fmt.Errorf("there is no parameter $%d", i+1)
		}
		if e.params[i] == nil {
			return value{null: true}, nil
		}
		return value{b: e.params[i], binary: formatFor(e.formats, i) == 1}, nil
	case n.GetTypeCast() != nil:
		return e.eval(n.GetTypeCast().Arg)
	case n.GetColumnRef() != nil:
		cr := n.GetColumnRef()
		_, row, i, err := e.resolve(cr)
		if err != nil {
			return value{}, err
		}
		if row == nil {
			return value{}, fmt.Errorf("column reference outside of a row")
		}
		if row[i] == nil {
			return value{null: true}, nil
		}
		return value{b: row[i], binary: true}, nil // canonical
	case n.GetFuncCall() != nil:
		fc := n.GetFuncCall()
		name := strings.ToLower(sval(fc.Funcname[len(fc.Funcname)-1]))
		if (name == "substr" || name == "substring") && len(fc.Args) == 3 {
			v, err := e.eval(fc.Args[0])
			if err != nil || v.null {
				return v, err
			}
			from, _ := e.eval(fc.Args[1])
			cnt, _ := e.eval(fc.Args[2])
			f, _ := strconv.Atoi(string(from.b))
			c, _ := strconv.Atoi(string(cnt.b))
			b := v.b
			if f < 1 {
				f = 1
			}
			if f-1 > len(b) {
				return value{b: nil, binary: true}, nil
			}
			b = b[f-1:]
			if c < len(b) {
				b = b[:c]
			}
			return value{b: b, binary: true}, nil
		}
		return value{}, fmt.Errorf("function %s not supported by the simulated database", name)
	}
	return value{}, fmt.Errorf("expression not supported by the simulated database")
}

// cond evaluates a WHERE expression (three-valued: unknown = false).
func (e *evalCtx) cond(n *pg_query.Node) (bool, error) {
	switch {
	case n == nil:
		return true, nil
	case n.GetBoolExpr() != nil:
		be := n.GetBoolExpr()
		switch be.Boolop {
		case pg_query.BoolExprType_AND_EXPR:
			for _, a := range be.Args {
				ok, err := e.cond(a)
				if err != nil || !ok {
					return false, err
				}
			}
			return true, nil
		case pg_query.BoolExprType_OR_EXPR:
			for _, a := range be.Args {
				ok, err := e.cond(a)
				if err != nil {
					return false, err
				}
				if ok {
					return true, nil
				}
			}
			return false, nil
		case pg_query.BoolExprType_NOT_EXPR:
			ok, err := e.cond(be.Args[0])
			return !ok, err
		}
	case n.GetNullTest() != nil:
		nt := n.GetNullTest()
		v, err := e.eval(nt.Arg)
		if err != nil {
			return false, err
		}
		if nt.Nulltesttype == pg_query.NullTestType_IS_NULL {
			return v.null, nil
		}
		return !v.null, nil
	case n.GetAExpr() != nil:
		ae := n.GetAExpr()
		op := sval(ae.Name[len(ae.Name)-1])
		typ := e.colType(ae.Lexpr)
		if typ == "" {
			typ = e.colType(ae.Rexpr)
		}
		if typ == "" {
			typ = TText
		}
		l, err := e.eval(ae.Lexpr)
		if err != nil {
			return false, err
		}
		r, err := e.eval(ae.Rexpr)
		if err != nil {
			return false, err
		}
		if l.null || r.null {
			return false, nil
		}
		lc, err := e.db.canon(typ, l)
		if err != nil {
			return false, err
		}
		rc, err := e.db.canon(typ, r)
		if err != nil {
			return false, err
		}
		switch op {
		case "=":
			return bytes.Equal(lc, rc), nil
		case "<>", "!=":
			return !bytes.Equal(lc, rc), nil
		}
		return false, fmt.Errorf("operator %s not supported by the simulated database", op)
	}
	return false, fmt.Errorf("condition not supported by the simulated database")
}

// canon brings a value to canonical bytes of a type (column values already are).
func (db *PgDB) canon(typ string, v value) ([]byte, error) {
	if v.binary && typ != TInt4 && typ != TInt8 {
		return v.b, nil
	}
	if v.binary { // canonical integer cells are decimal text already when read from a row
		if _, err := strconv.ParseInt(string(v.b), 10, 64); err == nil {
			return v.b, nil
		}
	}
	return db.toCell(typ, v)
}

func relName(rv *pg_query.RangeVar) string { return strings.ToLower(rv.Relname) }

func (db *PgDB) parseOne(sql string) (*pg_query.Node, error) {
	tree, err := pg_query.Parse(sql)
	if err != nil {
		return nil, fmt.Errorf("syntax error: %v", err)
	}
	if len(tree.Stmts) != 1 {
		return nil, fmt.Errorf("simulated database: exactly one statement expected, got %d", len(tree.Stmts))
	}
	return tree.Stmts[0].Stmt, nil
}

func (db *PgDB) fieldsFor(t *Table, targets []*pg_query.Node) ([]pgproto3.FieldDescription, []int, error) {
	var fields []pgproto3.FieldDescription
	var idx []int
	add := func(i int, alias string) {
		name := t.Cols[i].Name
		if alias != "" {
			name = alias
		}
		fields = append(fields, pgproto3.FieldDescription{Name: []byte(name), TableOID: 16384, TableAttributeNumber: uint16(i + 1),
			DataTypeOID: typeOID[t.Cols[i].Type], DataTypeSize: -1, TypeModifier: -1})
		idx = append(idx, i)
	}
	for _, tn := range targets {
		rt := tn.GetResTarget()
		if rt == nil {
			return nil, nil, fmt.Errorf("select target not supported")
		}
		val := rt.Val
		for val.GetTypeCast() != nil {
			val = val.GetTypeCast().Arg
		}
		cr := val.GetColumnRef()
		if cr == nil {
			return nil, nil, fmt.Errorf("select target not supported by the simulated database")
		}
		last := cr.Fields[len(cr.Fields)-1]
		if last.GetAStar() != nil {
			for i := range t.Cols {
				add(i, "")
			}
			continue
		}
		i := t.colIndex(sval(last))
		if i < 0 {
			return nil, nil, fmt.Errorf("column %q does not exist", sval(last))
		}
		add(i, rt.Name)
	}
	return fields, idx, nil
}

// describe returns the row description of a statement (nil: no rows).
func (db *PgDB) describe(sql string) ([]pgproto3.FieldDescription, error) {
	st, err := db.parseOne(sql)
	if err != nil {
		return nil, err
	}
	switch {
	case st.GetSelectStmt() != nil:
		s := st.GetSelectStmt()
		if rels, _, ok := joinOf(s); ok {
			probe := &pg_query.SelectStmt{TargetList: s.TargetList, FromClause: s.FromClause}
			saved := map[string][][][]byte{}
			for _, rv := range rels {
				if t := db.Tables[relName(rv)]; t != nil {
					saved[t.Name], t.Rows = t.Rows, nil
				}
			}
			res, err := db.execJoin(probe, rels, nil, nil, nil)
			for _, rv := range rels {
				if t := db.Tables[relName(rv)]; t != nil {
					t.Rows = saved[t.Name]
				}
			}
			if err != nil {
				return nil, err
			}
			return res.fields, nil
		}
		if len(s.FromClause) != 1 || s.FromClause[0].GetRangeVar() == nil {
			return nil, fmt.Errorf("unsupported")
		}
		t := db.Tables[relName(s.FromClause[0].GetRangeVar())]
		if t == nil {
			return nil, fmt.Errorf("no table")
		}
		f, _, err := db.fieldsFor(t, s.TargetList)
		return f, err
	case st.GetInsertStmt() != nil && len(st.GetInsertStmt().ReturningList) > 0:
		t := db.Tables[relName(st.GetInsertStmt().Relation)]
		if t == nil {
			return nil, fmt.Errorf("no table")
		}
		f, _, err := db.fieldsFor(t, st.GetInsertStmt().ReturningList)
		return f, err
	}
	return nil, nil
}

// paramTypes infers parameter types from the columns they are assigned to or
// compared with; declared types win.
func (db *PgDB) paramTypes(sql string, declared []uint32) []uint32 {
	st, err := db.parseOne(sql)
	if err != nil {
		return declared
	}
	types := map[int]uint32{}
	note := func(n *pg_query.Node, typ string) {
		for n != nil && n.GetTypeCast() != nil {
			n = n.GetTypeCast().Arg
		}
		if n != nil && n.GetParamRef() != nil {
			types[int(n.GetParamRef().Number)] = typeOID[typ]
		}
	}
	var t *Table
	var walkCond func(n *pg_query.Node)
	walkCond = func(n *pg_query.Node) {
		if n == nil || t == nil {
			return
		}
		if be := n.GetBoolExpr(); be != nil {
			for _, a := range be.Args {
				walkCond(a)
			}
		}
		if ae := n.GetAExpr(); ae != nil {
			e := &evalCtx{db: db, table: t}
			if typ := e.colType(ae.Lexpr); typ != "" {
				note(ae.Rexpr, typ)
			}
			if typ := e.colType(ae.Rexpr); typ != "" {
				note(ae.Lexpr, typ)
			}
		}
	}
	switch {
	case st.GetInsertStmt() != nil:
		ins := st.GetInsertStmt()
		t = db.Tables[relName(ins.Relation)]
		if t != nil && ins.SelectStmt != nil && ins.SelectStmt.GetSelectStmt() != nil {
			for _, vl := range ins.SelectStmt.GetSelectStmt().ValuesLists {
				for i, item := range vl.GetList().Items {
					ci := i
					if len(ins.Cols) > 0 {
						if i >= len(ins.Cols) {
							continue
						}
						ci = t.colIndex(ins.Cols[i].GetResTarget().Name)
					}
					if ci >= 0 && ci < len(t.Cols) {
						note(item, t.Cols[ci].Type)
					}
				}
			}
		}
	case st.GetUpdateStmt() != nil:
		up := st.GetUpdateStmt()
		t = db.Tables[relName(up.Relation)]
		if t != nil {
			for _, tn := range up.TargetList {
				rt := tn.GetResTarget()
				if ci := t.colIndex(rt.Name); ci >= 0 {
					note(rt.Val, t.Cols[ci].Type)
				}
			}
			walkCond(up.WhereClause)
		}
	case st.GetSelectStmt() != nil:
		s := st.GetSelectStmt()
		if len(s.FromClause) == 1 && s.FromClause[0].GetRangeVar() != nil {
			t = db.Tables[relName(s.FromClause[0].GetRangeVar())]
			walkCond(s.WhereClause)
		}
	case st.GetDeleteStmt() != nil:
		t = db.Tables[relName(st.GetDeleteStmt().Relation)]
		walkCond(st.GetDeleteStmt().WhereClause)
	}
	n := len(declared)
	for k := range types {
		if k > n {
			n = k
		}
	}
	out := make([]uint32, n)
	for i := range out {
		if i < len(declared) && declared[i] != 0 {
			out[i] = declared[i]
		} else if o, ok := types[i+1]; ok {
			out[i] = o
		} else {
			out[i] = 25
		}
	}
	return out
}

// exec executes one statement.
func (db *PgDB) exec(sql string, params [][]byte, formats []int16) *pgResult {
	st, err := db.parseOne(sql)
	if err != nil {
		return &pgResult{err: err.Error()}
	}
	fail := func(err error) *pgResult {
		if strings.Contains(err.Error(), "simulated database") {
			db.Unsupported++
		}
		return &pgResult{err: err.Error()}
	}
	switch {
	case st.GetInsertStmt() != nil:
		ins := st.GetInsertStmt()
		t := db.Tables[relName(ins.Relation)]
		if t == nil {
			return fail(fmt.Errorf("relation %q does not exist", ins.Relation.Relname))
		}
		if ins.SelectStmt == nil || ins.SelectStmt.GetSelectStmt() == nil || len(ins.SelectStmt.GetSelectStmt().ValuesLists) == 0 {
			return fail(fmt.Errorf("simulated database: only INSERT ... VALUES is supported"))
		}
		var newRows [][][]byte
		for _, vl := range ins.SelectStmt.GetSelectStmt().ValuesLists {
			items := vl.GetList().Items
			row := make([][]byte, len(t.Cols))
			for i, item := range items {
				ci := i
				if len(ins.Cols) > 0 {
					if i >= len(ins.Cols) {
						return fail(fmt.Errorf("INSERT has more expressions than target columns"))
					}
					ci = t.colIndex(ins.Cols[i].GetResTarget().Name)
				}
				if ci < 0 || ci >= len(t.Cols) {
					return fail(fmt.Errorf("column does not exist"))
				}
				e := &evalCtx{db: db, params: params, formats: formats, table: t}
				if item.GetSetToDefault() != nil {
					continue
				}
				v, err := e.eval(item)
				if err != nil {
					return fail(err)
				}
				cell, err := db.toCell(t.Cols[ci].Type, v)
				if err != nil {
					return fail(err)
				}
				row[ci] = cell
			}
			newRows = append(newRows, row)
		}
		t.Rows = append(t.Rows, newRows...)
		res := &pgResult{tag: fmt.Sprintf("INSERT 0 %d", len(newRows))}
		if len(ins.ReturningList) > 0 {
			fields, idx, err := db.fieldsFor(t, ins.ReturningList)
			if err != nil {
				return fail(err)
			}
			res.fields = fields
			base := len(t.Rows) - len(newRows)
			for ri, r := range newRows {
				res.rows = append(res.rows, db.project(t, base+ri, r, idx))
			}
			for _, i := range idx {
				res.cols = append(res.cols, t.Cols[i].Type)
			}
		}
		return res
	case st.GetUpdateStmt() != nil:
		up := st.GetUpdateStmt()
		t := db.Tables[relName(up.Relation)]
		if t == nil {
			return fail(fmt.Errorf("relation %q does not exist", up.Relation.Relname))
		}
		n := 0
		for ri, row := range t.Rows {
			e := &evalCtx{db: db, params: params, formats: formats, table: t, row: row}
			ok, err := e.cond(up.WhereClause)
			if err != nil {
				return fail(err)
			}
			if !ok {
				continue
			}
			newRow := append([][]byte(nil), row...)
			for _, tn := range up.TargetList {
				rt := tn.GetResTarget()
				ci := t.colIndex(rt.Name)
				if ci < 0 {
					return fail(fmt.Errorf("column %q does not exist", rt.Name))
				}
				v, err := e.eval(rt.Val)
				if err != nil {
					return fail(err)
				}
				if v.binary && rt.Val.GetColumnRef() != nil {
					newRow[ci] = v.b
					continue
				}
				cell, err := db.toCell(t.Cols[ci].Type, v)
				if err != nil {
					return fail(err)
				}
				newRow[ci] = cell
			}
			t.Rows[ri] = newRow
			n++
		}
		return &pgResult{tag: fmt.Sprintf("UPDATE %d", n)}
	case st.GetDeleteStmt() != nil:
		del := st.GetDeleteStmt()
		t := db.Tables[relName(del.Relation)]
		if t == nil {
			return fail(fmt.Errorf("relation %q does not exist", del.Relation.Relname))
		}
		var keep [][][]byte
		n := 0
		for _, row := range t.Rows {
			e := &evalCtx{db: db, params: params, formats: formats, table: t, row: row}
			ok, err := e.cond(del.WhereClause)
			if err != nil {
				return fail(err)
			}
			if ok {
				n++
			} else {
				keep = append(keep, row)
			}
		}
		t.Rows = keep
		return &pgResult{tag: fmt.Sprintf("DELETE %d", n)}
	case st.GetSelectStmt() != nil:
		s := st.GetSelectStmt()
		if rels, quals, ok := joinOf(s); ok {
			res, err := db.execJoin(s, rels, quals, params, formats)
			if err != nil {
				return fail(err)
			}
			return res
		}
		if len(s.FromClause) != 1 || s.FromClause[0].GetRangeVar() == nil {
			return fail(fmt.Errorf("simulated database: SELECT from exactly one table is supported"))
		}
		t := db.Tables[relName(s.FromClause[0].GetRangeVar())]
		if t == nil {
			return fail(fmt.Errorf("relation %q does not exist", s.FromClause[0].GetRangeVar().Relname))
		}
		fields, idx, err := db.fieldsFor(t, s.TargetList)
		if err != nil {
			return fail(err)
		}
		res := &pgResult{fields: fields, table: t.Name}
		for _, i := range idx {
			res.cols = append(res.cols, t.Cols[i].Type)
		}
		for ri, row := range t.Rows {
			e := &evalCtx{db: db, params: params, formats: formats, table: t, row: row}
			ok, err := e.cond(s.WhereClause)
			if err != nil {
				return fail(err)
			}
			if ok {
				res.rows = append(res.rows, db.project(t, ri, row, idx))
			}
		}
		res.tag = fmt.Sprintf("SELECT %d", len(res.rows))
		return res
	}
	return fail(fmt.Errorf("simulated database: statement kind not supported"))
}

func (db *PgDB) project(t *Table, ri int, row [][]byte, idx []int) [][]byte {
	out := make([][]byte, len(idx))
	for k, i := range idx {
		cell := row[i]
		if cell != nil && db.Corrupt != nil {
			cell = db.Corrupt(t.Name, ri, i, cell)
		}
		out[k] = cell
	}
	return out
}

// joinOf recognises a two-table inner join: "a JOIN b ON cond" or "a, b".
func joinOf(s *pg_query.SelectStmt) ([]*pg_query.RangeVar, *pg_query.Node, bool) {
	if len(s.FromClause) == 1 && s.FromClause[0].GetJoinExpr() != nil {
		j := s.FromClause[0].GetJoinExpr()
		if j.Jointype == pg_query.JoinType_JOIN_INNER && j.Larg.GetRangeVar() != nil && j.Rarg.GetRangeVar() != nil {
			return []*pg_query.RangeVar{j.Larg.GetRangeVar(), j.Rarg.GetRangeVar()}, j.Quals, true
		}
	}
	if len(s.FromClause) == 2 && s.FromClause[0].GetRangeVar() != nil && s.FromClause[1].GetRangeVar() != nil {
		return []*pg_query.RangeVar{s.FromClause[0].GetRangeVar(), s.FromClause[1].GetRangeVar()}, nil, true
	}
	return nil, nil, false
}

// execJoin evaluates a two-table inner join by nested loops; targets are column references.
func (db *PgDB) execJoin(s *pg_query.SelectStmt, rels []*pg_query.RangeVar, quals *pg_query.Node, params [][]byte, formats []int16) (*pgResult, error) {
	var bound []boundTable
	for _, rv := range rels {
		t := db.Tables[relName(rv)]
		if t == nil {
			return nil, fmt.Errorf("relation %q does not exist", rv.Relname)
		}
		alias := t.Name
		if rv.Alias != nil && rv.Alias.Aliasname != "" {
			alias = rv.Alias.Aliasname
		}
		bound = append(bound, boundTable{alias: alias, t: t})
	}
	res := &pgResult{table: bound[0].t.Name}
	type target struct {
		cr *pg_query.ColumnRef
	}
	var targets []target
	shape := &evalCtx{db: db, bound: bound}
	for _, tn := range s.TargetList {
		rt := tn.GetResTarget()
		if rt == nil || rt.Val.GetColumnRef() == nil || rt.Val.GetColumnRef().Fields[len(rt.Val.GetColumnRef().Fields)-1].GetAStar() != nil {
			return nil, fmt.Errorf("select target not supported by the simulated database in a join")
		}
		cr := rt.Val.GetColumnRef()
		t, _, i, err := shape.resolve(cr)
		if err != nil {
			return nil, err
		}
		name := t.Cols[i].Name
		if rt.Name != "" {
			name = rt.Name
		}
		res.fields = append(res.fields, pgproto3.FieldDescription{Name: []byte(name), TableOID: 16384, TableAttributeNumber: uint16(i + 1),
			DataTypeOID: typeOID[t.Cols[i].Type], DataTypeSize: -1, TypeModifier: -1})
		res.cols = append(res.cols, t.Cols[i].Type)
		targets = append(targets, target{cr})
	}
	for li, lrow := range bound[0].t.Rows {
		for ri, rrow := range bound[1].t.Rows {
			e := &evalCtx{db: db, params: params, formats: formats,
				bound: []boundTable{{bound[0].alias, bound[0].t, lrow}, {bound[1].alias, bound[1].t, rrow}}}
			ok, err := e.cond(quals)
			if err != nil {
				return nil, err
			}
			if !ok {
				continue
			}
			if ok, err = e.cond(s.WhereClause); err != nil {
				return nil, err
			} else if !ok {
				continue
			}
			var out [][]byte
			for _, tg := range targets {
				t, row, i, _ := e.resolve(tg.cr)
				cell := row[i]
				if cell != nil && db.Corrupt != nil {
					rowIdx := li
					if t == bound[1].t {
						rowIdx = ri
					}
					cell = db.Corrupt(t.Name, rowIdx, i, cell)
				}
				out = append(out, cell)
			}
			res.rows = append(res.rows, out)
		}
	}
	res.tag = fmt.Sprintf("SELECT %d", len(res.rows))
	return res, nil
}

// safeReceive turns a panic of the message codec (pgproto3 decodes some malformed messages with unchecked
// indexes) into a protocol error: the simulated peer drops the connection, as a real one would.
func safeReceive[T any](recv func() (T, error)) (msg T, err error) {
	defer func() {
		if r := recover(); r != nil {
			err = fmt.Errorf("malformed message: %v", r)
		}
	}()
	return recv()
}
