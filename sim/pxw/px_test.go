package pxw

import (
	"testing"

	"verif/sim/kernel"
)

// TestVerif is the single entry point of the proxy-side harness binary.
func TestVerif(t *testing.T) {
	kernel.WorkerMain(t, map[string]kernel.Property{
		"C04": C04{},
		"C05": C05{},
		"C09": C09{},
		"C11": C11{},
		"C15": C15{},
		"C19": C19{},
	})
}
