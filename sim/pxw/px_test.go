package pxw

import (
	"fmt"
	"os"
	"testing"

	"verif/sim/kernel"
)

func init() {
	ksWarm := kernel.Warmup
	kernel.Warmup = func(t *testing.T) {
		if ksWarm != nil {
			ksWarm(t)
		}
		// one complete throw-away session through the proxy (tracing id
		// generator, parser tables, type registries ... are initialised lazily)
		r := kernel.NewRNG(4242, 1)
		for i := 0; i < 3; i++ {
			plan := &kernel.Plan{Prop: "C04", Seed: 777 + uint64(i), Swarm: map[string]int64{"chunk": 0, "colseed": int64(r.Uint32()), "stranger": 1}}
			for j, k := range []string{"insert", "insert-multi", "update", "select", "insert-returning", "db-error"} {
				plan.Ops = append(plan.Ops, kernel.Op{ID: j + 1, Kind: k, A: []int64{int64(j % 2), 1, int64(j % 2), 7}})
			}
			C04{}.Run(t, plan, false)
		}
	}
}

func init() {
	if f := os.Getenv("VERIF_DUMP_STMTS"); f != "" {
		DebugHook = func(pw *PgWorld, run *SessionRun, script []Stmt) {
			if fh, err := os.OpenFile(f, os.O_APPEND|os.O_CREATE|os.O_WRONLY, 0o644); err == nil {
				for _, s := range pw.DB.Statements {
					fmt.Fprintf(fh, "%d %.60q ... %q\n", len(s), s, s[max(0, len(s)-700):])
				}
				fh.Close()
			}
		}
	}
}

// TestVerif is the single entry point of the proxy-side harness binary.
func TestVerif(t *testing.T) {
	kernel.WorkerMain(t, map[string]kernel.Property{
		"C01": C01{},
		"C02": C02{},
		"C03": C03{},
		"C04": C04{},
		"C05": C05{},
		"C09": C09{},
		"C11": C11{},
		"C12": C12{},
		"C14": C14{},
		"C15": C15{},
		"C16": C16{},
		"C19": C19{},
	})
}
