// Package kernel is the deterministic-simulation kernel shared by all
// property worlds: PRNG, plans, event recorder, task scheduler with crash
// injection, fault table, shrinker, replay files and the worker main loop.
// See /verif/DESIGN.md §2.
package kernel

import (
	"encoding/json"
	"fmt"
	"hash/fnv"
	"math/rand/v2"
	"os"
	"sort"
	"strings"
)

// RNG is the only source of choices. One seed, one execution.
type RNG struct{ *rand.Rand }

// NewRNG makes a PCG generator from a seed and a stream label.
func NewRNG(seed uint64, stream uint64) *RNG {
	return &RNG{rand.New(rand.NewPCG(seed, stream^0x9e3779b97f4a7c15))}
}

// Intn returns a value in [0,n).
func (r *RNG) Intn(n int) int {
	if n <= 0 {
		return 0
	}
	return r.IntN(n)
}

// Chance is true with probability num/den.
func (r *RNG) Chance(num, den int) bool { return r.Intn(den) < num }

// Pick picks one of the strings.
func (r *RNG) Pick(xs ...string) string { return xs[r.Intn(len(xs))] }

// Bytes returns n pseudo-random bytes.
func (r *RNG) Bytes(n int) []byte {
	b := make([]byte, n)
	for i := range b {
		b[i] = byte(r.Uint32())
	}
	return b
}

// Mix derives a sub-seed.
func Mix(a uint64, bs ...uint64) uint64 {
	x := a
	for _, b := range bs {
		x ^= b + 0x9e3779b97f4a7c15 + (x << 6) + (x >> 2)
		x *= 0xbf58476d1ce4e5b9
		x ^= x >> 31
	}
	return x
}

// Op is one workload operation of a plan.
type Op struct {
	ID   int      `json:"id"`
	Proc int      `json:"proc,omitempty"`
	Kind string   `json:"kind"`
	A    []int64  `json:"a,omitempty"`
	S    []string `json:"s,omitempty"`
	B    [][]byte `json:"b,omitempty"`
}

// opJSON is the wire form of Op: S travels twice, readable ("s", lossy for
// invalid UTF-8) and exact ("s64", base64), so that replay files reproduce
// byte-exact inputs.
type opJSON struct {
	ID   int      `json:"id"`
	Proc int      `json:"proc,omitempty"`
	Kind string   `json:"kind"`
	A    []int64  `json:"a,omitempty"`
	S    []string `json:"s,omitempty"`
	S64  [][]byte `json:"s64,omitempty"`
	B    [][]byte `json:"b,omitempty"`
}

// MarshalJSON implements json.Marshaler.
func (o Op) MarshalJSON() ([]byte, error) {
	j := opJSON{ID: o.ID, Proc: o.Proc, Kind: o.Kind, A: o.A, S: o.S, B: o.B}
	for _, s := range o.S {
		j.S64 = append(j.S64, []byte(s))
	}
	return json.Marshal(j)
}

// UnmarshalJSON implements json.Unmarshaler.
func (o *Op) UnmarshalJSON(b []byte) error {
	var j opJSON
	if err := json.Unmarshal(b, &j); err != nil {
		return err
	}
	*o = Op{ID: j.ID, Proc: j.Proc, Kind: j.Kind, A: j.A, S: j.S, B: j.B}
	if len(j.S64) == len(j.S) {
		for i := range j.S64 {
			o.S[i] = string(j.S64[i])
		}
	}
	return nil
}

func (o Op) String() string {
	var sb strings.Builder
	fmt.Fprintf(&sb, "#%d p%d %s", o.ID, o.Proc, o.Kind)
	if len(o.A) > 0 {
		fmt.Fprintf(&sb, " %v", o.A)
	}
	if len(o.S) > 0 {
		fmt.Fprintf(&sb, " %q", o.S)
	}
	for _, b := range o.B {
		if len(b) > 24 {
			fmt.Fprintf(&sb, " %x..(%d)", b[:24], len(b))
		} else {
			fmt.Fprintf(&sb, " %x", b)
		}
	}
	return sb.String()
}

// Arg returns A[i] or def.
func (o Op) Arg(i int, def int64) int64 {
	if i < len(o.A) {
		return o.A[i]
	}
	return def
}

// Str returns S[i] or "".
func (o Op) Str(i int) string {
	if i < len(o.S) {
		return o.S[i]
	}
	return ""
}

// Buf returns B[i] or nil.
func (o Op) Buf(i int) []byte {
	if i < len(o.B) {
		return o.B[i]
	}
	return nil
}

// Fault is one entry of the fault table: during op OpID (0 = any), the Nth
// (1-based) seam call whose site has prefix Site gets Kind applied.
type Fault struct {
	OpID int    `json:"op,omitempty"`
	Proc int    `json:"proc,omitempty"`
	Site string `json:"site,omitempty"`
	Nth  int    `json:"nth"`
	Kind string `json:"kind"`
	Arg  int64  `json:"arg,omitempty"`
}

// Fault kinds.
const (
	FErr         = "error"        // call returns an error, no effect
	FErrPartial  = "error-partial" // data write leaves a partial file, returns error
	FCrashBefore = "crash-before" // process dies before the call
	FCrashAfter  = "crash-after"  // process dies right after the call took effect
	FTorn        = "torn"         // data write stops after Arg‰ of the data, process dies
)

// Plan is a complete, replayable description of one simulated run.
type Plan struct {
	Prop   string           `json:"prop"`
	Seed   uint64           `json:"seed"`
	Swarm  map[string]int64 `json:"swarm,omitempty"`
	Ops    []Op             `json:"ops"`
	Faults []Fault          `json:"faults,omitempty"`
	Tape   []uint32         `json:"tape,omitempty"`
}

// Clone deep-copies a plan.
func (p *Plan) Clone() *Plan {
	b, _ := json.Marshal(p)
	q := &Plan{}
	_ = json.Unmarshal(b, q)
	return q
}

// Sw reads a swarm knob.
func (p *Plan) Sw(k string) int64 { return p.Swarm[k] }

// Violation is a failed oracle rule. (Prop, Rule, Site) is the class used
// for shrinking, de-duplication and the known-findings file.
type Violation struct {
	Prop   string `json:"prop"`
	Rule   string `json:"rule"`
	Site   string `json:"site"`
	Detail string `json:"detail,omitempty"`
}

// Class is the stable identity of a violation.
func (v Violation) Class() string { return v.Prop + "|" + v.Rule + "|" + v.Site }

// Result is what one run reports.
type Result struct {
	Violations []Violation      `json:"violations,omitempty"`
	Steps      int              `json:"steps"`
	LogHash    uint64           `json:"log_hash"`
	Inter      uint64           `json:"interleaving"`
	States     []uint64         `json:"-"`
	Fired      map[string]int   `json:"fired,omitempty"`
	Probes     map[string]int   `json:"probes,omitempty"`
	SimNanos   int64            `json:"sim_ns"`
	Cut        bool             `json:"cut,omitempty"`
	Trivial    bool             `json:"trivial,omitempty"`
	Log        []string         `json:"-"`
	Tape       []uint32         `json:"-"`
	Extra      map[string]int64 `json:"extra,omitempty"`
}

// Has reports whether the result contains a violation of the class.
func (r *Result) Has(class string) bool {
	for _, v := range r.Violations {
		if v.Class() == class {
			return true
		}
	}
	return false
}

// Replay is the on-disk replay file.
type Replay struct {
	Plan      *Plan     `json:"plan"`
	Expect    Violation `json:"expect"`
	LogHash   uint64    `json:"log_hash"`
	Log       []string  `json:"event_log,omitempty"`
	Shrunk    string    `json:"shrunk,omitempty"`
	OrigOps   int       `json:"orig_ops"`
	OrigFault int       `json:"orig_faults"`
}

// WriteReplay stores a replay file and returns its path.
func WriteReplay(dir string, rp *Replay) (string, error) {
	if err := os.MkdirAll(dir, 0o755); err != nil {
		return "", err
	}
	b, err := json.MarshalIndent(rp, "", " ")
	if err != nil {
		return "", err
	}
	h := fnv.New32a()
	h.Write([]byte(rp.Expect.Class()))
	name := fmt.Sprintf("%s/%s-%d-%08x.json", dir, rp.Plan.Prop, rp.Plan.Seed, h.Sum32())
	return name, os.WriteFile(name, b, 0o644)
}

// ReadReplay loads a replay file.
func ReadReplay(path string) (*Replay, error) {
	b, err := os.ReadFile(path)
	if err != nil {
		return nil, err
	}
	rp := &Replay{}
	if err := json.Unmarshal(b, rp); err != nil {
		return nil, err
	}
	return rp, nil
}

// SortedKeys returns the keys of a counter map in order.
func SortedKeys(m map[string]int) []string {
	ks := make([]string, 0, len(m))
	for k := range m {
		ks = append(ks, k)
	}
	sort.Strings(ks)
	return ks
}
