package kernel

// Shrink minimises a failing plan by delta debugging while a violation of the
// same class persists: drop operations, drop faults, zero and truncate the
// scheduler tape. At most budget executions.
func Shrink(run func(*Plan) *Result, plan *Plan, class string, budget int) *Plan {
	best := plan.Clone()
	// materialise the tape so that scheduling no longer depends on the PRNG
	first := run(best)
	budget--
	if !first.Has(class) {
		return best // flaky: caller's replay verification will catch it
	}
	if len(first.Tape) > 0 {
		c := best.Clone()
		c.Tape = append([]uint32(nil), first.Tape...)
		if run(c).Has(class) {
			best = c
		}
		budget--
	}
	try := func(c *Plan) bool {
		if budget <= 0 {
			return false
		}
		budget--
		if run(c).Has(class) {
			best = c
			return true
		}
		return false
	}
	changed := true
	for changed && budget > 0 {
		changed = false
		// operations: remove chunks, large to small
		for chunk := len(best.Ops) / 2; chunk >= 1; chunk /= 2 {
			for i := len(best.Ops) - chunk; i >= 0; i -= chunk {
				if i+chunk > len(best.Ops) {
					continue
				}
				c := best.Clone()
				c.Ops = append(c.Ops[:i:i], c.Ops[i+chunk:]...)
				if try(c) {
					changed = true
				}
				if budget <= 0 {
					break
				}
			}
		}
		// faults
		for i := len(best.Faults) - 1; i >= 0; i-- {
			c := best.Clone()
			c.Faults = append(c.Faults[:i:i], c.Faults[i+1:]...)
			if try(c) {
				changed = true
			}
		}
		// tape: drop it entirely, truncate, zero chunks
		if len(best.Tape) > 0 {
			c := best.Clone()
			c.Tape = make([]uint32, len(best.Tape))
			if !try(c) {
				for chunk := len(best.Tape) / 2; chunk >= 1; chunk /= 2 {
					for i := 0; i+chunk <= len(best.Tape); i += chunk {
						allZero := true
						for _, v := range best.Tape[i : i+chunk] {
							if v != 0 {
								allZero = false
							}
						}
						if allZero {
							continue
						}
						c := best.Clone()
						for j := i; j < i+chunk; j++ {
							c.Tape[j] = 0
						}
						if try(c) {
							changed = true
						}
					}
					if chunk > 64 && budget < 50 {
						break
					}
				}
			} else {
				changed = true
			}
		}
	}
	return best
}
