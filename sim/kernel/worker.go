package kernel

import (
	"encoding/json"
	"fmt"
	"os"
	"sort"
	"strconv"
	"testing"
	"time"
)

// Property is one property world.
type Property interface {
	ID() string
	// Explore generates plans for one exploration seed and executes each
	// through x.Exec. It must return promptly when x.Expired().
	Explore(x *Explorer, seed uint64)
	// Run executes one plan. It must be a pure function of the plan and the
	// code under test.
	Run(t *testing.T, plan *Plan, keepLog bool) *Result
}

// Summary is what a worker process reports to the driver.
type Summary struct {
	Prop        string            `json:"prop"`
	Tier        string            `json:"tier"`
	Worker      int               `json:"worker"`
	BaseSeed    uint64            `json:"base_seed"`
	Seeds       int               `json:"seeds"`
	Runs        int               `json:"runs"`
	Nontrivial  int               `json:"nontrivial"`
	Steps       int64             `json:"steps"`
	SimNanos    int64             `json:"sim_ns"`
	Cut         int               `json:"cut"`
	Inter       []uint64          `json:"interleavings"`
	States      []uint64          `json:"states"`
	Fired       map[string]int    `json:"fired"`
	Probes      map[string]int    `json:"probes"`
	Extra       map[string]int64  `json:"extra"`
	Samples     []json.RawMessage `json:"samples"`
	Violations  []FoundViolation  `json:"violations"`
	WallSeconds float64           `json:"wall_s"`
	Exhaustive  bool              `json:"exhaustive"`
}

// FoundViolation is a violation class with its minimised replay file.
type FoundViolation struct {
	Violation
	Replay string `json:"replay"`
	Count  int    `json:"count"`
}

// Explorer is handed to Property.Explore.
type Explorer struct {
	T        *testing.T
	Prop     Property
	Tier     string
	Deadline time.Time
	sum      *Summary
	inter    map[uint64]struct{}
	states   map[uint64]struct{}
	found    map[string]*FoundViolation
	replayDir string
	logx      uint64
	MaxClasses int
}

// Quick reports whether this is the quick tier.
func (x *Explorer) Quick() bool { return x.Tier != "thorough" }

// Expired reports whether the time budget is used up.
func (x *Explorer) Expired() bool {
	return time.Now().After(x.Deadline) || len(x.found) >= x.MaxClasses
}

// Sample stores a human-readable sample case in the evidence.
func (x *Explorer) Sample(v any) {
	if len(x.sum.Samples) >= 3 {
		return
	}
	b, err := json.Marshal(v)
	if err == nil {
		x.sum.Samples = append(x.sum.Samples, b)
	}
}

// Note adds to a free-form evidence counter.
func (x *Explorer) Note(key string, n int64) { x.sum.Extra[key] += n }

// Exec runs one plan, aggregates reach counters and handles violations.
func (x *Explorer) Exec(plan *Plan) *Result {
	keep := os.Getenv("VERIF_KEEPLOG_SEED") == fmt.Sprint(plan.Seed)
	t0 := time.Now()
	res := x.Prop.Run(x.T, plan, keep)
	if d := time.Since(t0); d > 2*time.Second {
		x.sum.Extra["slow_runs_over_2s"]++
	}
	res.Extra["wall_us"] = time.Since(t0).Microseconds()
	if keep {
		if fh, err := os.OpenFile(os.Getenv("VERIF_DETLOG_FILE")+".log", os.O_APPEND|os.O_CREATE|os.O_WRONLY, 0o644); err == nil {
			for _, l := range res.Log {
				fmt.Fprintln(fh, l)
			}
			fh.Close()
		}
	}
	s := x.sum
	s.Runs++
	if !res.Trivial {
		s.Nontrivial++
	}
	s.Steps += int64(res.Steps)
	s.SimNanos += res.SimNanos
	if res.Cut {
		s.Cut++
	}
	x.inter[res.Inter] = struct{}{}
	x.logx += Mix(res.LogHash, 0x10c)
	if f := os.Getenv("VERIF_DETLOG_FILE"); f != "" {
		if fh, err := os.OpenFile(f, os.O_APPEND|os.O_CREATE|os.O_WRONLY, 0o644); err == nil {
			fmt.Fprintf(fh, "%d %v %d %d cut=%v wall_us=%d faults=%v\n", plan.Seed, plan.Swarm, res.LogHash, res.Steps, res.Cut, res.Extra["wall_us"], plan.Faults)
			fh.Close()
		}
	} // order-insensitive: seeds may be explored in any order
	for _, st := range res.States {
		x.states[st] = struct{}{}
	}
	for k, v := range res.Fired {
		s.Fired[k] += v
	}
	for k, v := range res.Probes {
		s.Probes[k] += v
	}
	for k, v := range res.Extra {
		s.Extra[k] += v
	}
	if len(s.Samples) < 2 && len(plan.Ops) > 0 {
		ops := make([]string, 0, len(plan.Ops))
		for _, o := range plan.Ops {
			ops = append(ops, o.String())
		}
		x.Sample(map[string]any{"seed": plan.Seed, "swarm": plan.Swarm, "ops": ops, "faults": plan.Faults})
	}
	seen := map[string]bool{}
	for _, v := range res.Violations {
		if v.Prop != x.Prop.ID() {
			s.Extra["foreign:"+v.Class()]++
			continue
		}
		c := v.Class()
		if seen[c] {
			continue
		}
		seen[c] = true
		if fv, ok := x.found[c]; ok {
			fv.Count++
			continue
		}
		fv := &FoundViolation{Violation: v, Count: 1}
		x.found[c] = fv
		fv.Replay = x.minimise(plan, v)
	}
	return res
}

func (x *Explorer) minimise(plan *Plan, v Violation) string {
	class := v.Class()
	// Shrinking is bounded in wall-clock time as well as in executions: past the limit every further
	// candidate counts as "does not reproduce", so the shrinker settles on the smallest plan found so far.
	// (The replay file is whatever plan comes out; how small it got does not affect its validity.)
	t0 := time.Now()
	limit := time.Duration(envInt("VERIF_SHRINK_S", 25)) * time.Second
	run := func(p *Plan) *Result {
		if time.Since(t0) > limit {
			return &Result{}
		}
		return x.Prop.Run(x.T, p, false)
	}
	small := Shrink(run, plan, class, 400)
	final := x.Prop.Run(x.T, small, true)
	exp := v
	for _, fv := range final.Violations {
		if fv.Class() == class {
			exp = fv
		}
	}
	rp := &Replay{Plan: small, Expect: exp, LogHash: final.LogHash, Log: tail(final.Log, 400),
		OrigOps: len(plan.Ops), OrigFault: len(plan.Faults),
		Shrunk: fmt.Sprintf("ops %d->%d faults %d->%d tape %d->%d", len(plan.Ops), len(small.Ops), len(plan.Faults), len(small.Faults), len(plan.Tape), len(small.Tape))}
	path, err := WriteReplay(x.replayDir, rp)
	if err != nil {
		fmt.Fprintf(os.Stderr, "cannot write replay: %v\n", err)
		os.Exit(2)
	}
	return path
}

func tail(xs []string, n int) []string {
	if len(xs) > n {
		return xs[len(xs)-n:]
	}
	return xs
}

func envInt(name string, def int64) int64 {
	if v := os.Getenv(name); v != "" {
		if n, err := strconv.ParseInt(v, 10, 64); err == nil {
			return n
		}
	}
	return def
}

// WorkerMain is the body of the single test function of a harness binary.
//
//	VERIF_PROP      property id
//	VERIF_SEED      base seed (default 1)
//	VERIF_TIER      quick|thorough
//	VERIF_WORKER    worker index, VERIF_WORKERS worker count
//	VERIF_BUDGET_S  wall-clock budget for exploration
//	VERIF_MAXSEEDS  stop after this many exploration seeds (0 = budget only)
//	VERIF_OUT       summary output path
//	VERIF_REPLAY    replay file to re-execute instead of exploring
//	VERIF_REPLAYDIR where to put replay files
// Warmup, when set by a harness package, is run once per process before the
// first seeded run. Go's crypto packages run one-time self-tests on first use
// that draw from the randomness source; without a warm-up the first run of a
// process would see a different random stream than every later run (and than
// a replay, which is always a first run).
var Warmup func(t *testing.T)

func WorkerMain(t *testing.T, props map[string]Property) {
	if Warmup != nil && os.Getenv("VERIF_NOWARM") == "" {
		Warmup(t)
	}
	id := os.Getenv("VERIF_PROP")
	prop, ok := props[id]
	if !ok {
		t.Skipf("VERIF_PROP=%q not served by this binary", id)
		return
	}
	if rpPath := os.Getenv("VERIF_REPLAY"); rpPath != "" {
		rp, err := ReadReplay(rpPath)
		if err != nil {
			fmt.Printf("REPLAY-ERROR %v\n", err)
			os.Exit(2)
		}
		res := prop.Run(t, rp.Plan, true)
		if os.Getenv("VERIF_REPLAY_LOG") != "" {
			for _, l := range res.Log {
				fmt.Println(l)
			}
		}
		fmt.Printf("REPLAY log_hash=%d expect_hash=%d steps=%d\n", res.LogHash, rp.LogHash, res.Steps)
		for _, v := range res.Violations {
			fmt.Printf("REPLAY-VIOLATION class=%s detail=%s\n", v.Class(), v.Detail)
		}
		if res.Has(rp.Expect.Class()) {
			fmt.Printf("REPLAY-REPRODUCED class=%s same_log=%v\n", rp.Expect.Class(), res.LogHash == rp.LogHash)
			return
		}
		fmt.Printf("REPLAY-NOT-REPRODUCED class=%s\n", rp.Expect.Class())
		return
	}
	start := time.Now()
	tier := os.Getenv("VERIF_TIER")
	if tier == "" {
		tier = "quick"
	}
	base := uint64(envInt("VERIF_SEED", 1))
	worker := int(envInt("VERIF_WORKER", 0))
	workers := int(envInt("VERIF_WORKERS", 1))
	budget := time.Duration(envInt("VERIF_BUDGET_S", 20)) * time.Second
	maxSeeds := int(envInt("VERIF_MAXSEEDS", 0))
	x := &Explorer{T: t, Prop: prop, Tier: tier, Deadline: start.Add(budget),
		sum:   &Summary{Prop: id, Tier: tier, Worker: worker, BaseSeed: base, Fired: map[string]int{}, Probes: map[string]int{}, Extra: map[string]int64{}},
		inter: map[uint64]struct{}{}, states: map[uint64]struct{}{}, found: map[string]*FoundViolation{},
		replayDir: os.Getenv("VERIF_REPLAYDIR"), MaxClasses: int(envInt("VERIF_MAXCLASSES", 12))}
	if x.replayDir == "" {
		x.replayDir = "/verif/replays"
	}
	for i := 0; ; i++ {
		if x.Expired() || (maxSeeds > 0 && i >= maxSeeds) {
			break
		}
		k := i
		if os.Getenv("VERIF_REVERSE") != "" && maxSeeds > 0 {
			k = maxSeeds - 1 - i // same seeds, opposite order (determinism self-test)
		}
		seed := Mix(base, uint64(worker)+uint64(workers)*uint64(k), 0x5eed)
		if os.Getenv("VERIF_RAWSEED") != "" {
			seed = base + uint64(worker) + uint64(workers)*uint64(i)
		}
		prop.Explore(x, seed)
		x.sum.Seeds++
	}
	s := x.sum
	for k := range x.inter {
		s.Inter = append(s.Inter, k)
	}
	for k := range x.states {
		s.States = append(s.States, k)
	}
	sort.Slice(s.Inter, func(i, j int) bool { return s.Inter[i] < s.Inter[j] })
	sort.Slice(s.States, func(i, j int) bool { return s.States[i] < s.States[j] })
	keys := make([]string, 0, len(x.found))
	for k := range x.found {
		keys = append(keys, k)
	}
	sort.Strings(keys)
	for _, k := range keys {
		s.Violations = append(s.Violations, *x.found[k])
	}
	s.Extra["loghash_xor"] = int64(x.logx)
	s.WallSeconds = time.Since(start).Seconds()
	b, _ := json.Marshal(s)
	if out := os.Getenv("VERIF_OUT"); out != "" {
		if err := os.WriteFile(out, b, 0o644); err != nil {
			fmt.Fprintf(os.Stderr, "cannot write summary: %v\n", err)
			os.Exit(2)
		}
	} else {
		fmt.Println(string(b))
	}
}
