package kernel

import (
	"fmt"
	"hash/fnv"
	"strings"
	"sync"
)

// CrashSignal unwinds a simulated process that has been killed.
type CrashSignal struct {
	Proc int
	Site string
}

// CutSignal unwinds a process when the run is cut (step budget, deadlock).
type CutSignal struct{}

// Decision is what the fault table says about one seam call.
type Decision struct {
	Kind string // "" = proceed normally
	Arg  int64
}

// World is the runtime of one simulated run.
type World struct {
	Plan *Plan
	Res  *Result

	seamMu sync.Mutex

	tapePos              int
	tapeRNG              *RNG
	EffTape              []uint32 // choices actually taken (for replay files)
	MaxSteps             int
	unordered            bool
	unordLog, unordInter uint64

	keepLog bool
	logHash uint64
	interH  uint64
	states  map[uint64]struct{}

	curOp    map[int]int    // proc -> op id being executed
	counts   map[string]int // fault-matching counters
	procs    []*Proc
	back     chan struct{}
	cut      bool
	multi    bool
	Deadlock bool
	// Cur is the process currently running (exactly one runs at a time);
	// hooks without a process argument use it.
	Cur int
}

// NewWorld prepares a run of plan.
func NewWorld(plan *Plan, keepLog bool) *World {
	w := &World{
		Plan:     plan,
		Res:      &Result{Fired: map[string]int{}, Probes: map[string]int{}, Extra: map[string]int64{}},
		tapeRNG:  NewRNG(plan.Seed, 0x7a9e),
		MaxSteps: 20000,
		keepLog:  keepLog,
		logHash:  14695981039346656037,
		interH:   14695981039346656037,
		states:   map[uint64]struct{}{},
		curOp:    map[int]int{},
		counts:   map[string]int{},
	}
	return w
}

func fnvMix(h uint64, s string) uint64 {
	for i := 0; i < len(s); i++ {
		h ^= uint64(s[i])
		h *= 1099511628211
	}
	h ^= 0xff
	h *= 1099511628211
	return h
}

// Event records one event of the run. Never draws randomness or reads clocks.
func (w *World) Event(proc int, site, detail string) {
	w.Res.Steps++
	line := fmt.Sprintf("%d p%d %s %s", w.Res.Steps, proc, site, detail)
	if w.unordered {
		// (see BeginUnordered) the set of events counts, not their order
		w.unordLog += fnvMix(0, fmt.Sprintf("p%d %s %s", proc, site, detail))
		w.unordInter += fnvMix(0, fmt.Sprintf("p%d %s", proc, site))
	} else {
		w.logHash = fnvMix(w.logHash, line)
		w.interH = fnvMix(w.interH, fmt.Sprintf("p%d %s", proc, site))
	}
	if w.keepLog {
		w.Res.Log = append(w.Res.Log, line)
	}
}

// BeginUnordered opens a section in which the code under test does the same storage calls in an order of its own
// (it walks a Go map): until EndUnordered the events enter the run's log hashes as a set, so that equal runs keep
// equal hashes. Nothing is scheduled or injected by event order inside such a section.
func (w *World) BeginUnordered() { w.unordered, w.unordLog, w.unordInter = true, 0, 0 }

// EndUnordered closes the section opened by BeginUnordered.
func (w *World) EndUnordered() {
	w.unordered = false
	w.logHash = fnvMix(w.logHash, fmt.Sprintf("unordered %d", w.unordLog))
	w.interH = fnvMix(w.interH, fmt.Sprintf("unordered %d", w.unordInter))
}

// State records a property-specific abstract state for the reach measure.
func (w *World) State(desc string) {
	h := fnv.New64a()
	h.Write([]byte(desc))
	w.states[h.Sum64()] = struct{}{}
}

// Probe bumps a reach probe.
func (w *World) Probe(name string) { w.Res.Probes[name]++ }

// Violate records a violation.
func (w *World) Violate(prop, rule, site, detail string) {
	if len(detail) > 600 {
		detail = detail[:600] + "…"
	}
	w.Res.Violations = append(w.Res.Violations, Violation{prop, rule, site, detail})
	w.Event(-1, "VIOLATION", prop+" "+rule+" "+site)
}

// Finish seals the result.
func (w *World) Finish() *Result {
	w.Res.LogHash = w.logHash
	w.Res.Inter = w.interH
	w.Res.Tape = w.EffTape
	for s := range w.states {
		w.Res.States = append(w.Res.States, s)
	}
	return w.Res
}

// Choose takes the next scheduler/driver choice in [0,n).
func (w *World) Choose(n int) int {
	if n <= 1 {
		return 0
	}
	var v uint32
	if w.tapePos < len(w.Plan.Tape) {
		v = w.Plan.Tape[w.tapePos]
	} else {
		v = w.tapeRNG.Uint32()
	}
	w.tapePos++
	w.EffTape = append(w.EffTape, v)
	return int(v % uint32(n))
}

// BeginOp notes that proc starts executing op (fault matching is per op).
func (w *World) BeginOp(proc int, op Op) {
	w.curOp[proc] = op.ID
	w.Event(proc, "op", op.String())
}

// EndOp notes that proc finished its op.
func (w *World) EndOp(proc int, outcome string) {
	w.Event(proc, "op-end", outcome)
	w.curOp[proc] = 0
}

// Seam is called by every seam wrapper before the real call. It is a yield
// point and a fault point. The returned decision is applied by the wrapper.
func (w *World) Seam(proc int, site, detail string) Decision {
	w.Yield(proc, site)
	// (the network engine calls seams of its key store from the proxy's goroutines; the task engine runs one
	// process at a time and never contends for this lock)
	w.seamMu.Lock()
	defer w.seamMu.Unlock()
	w.Event(proc, site, detail)
	if w.Res.Steps > w.MaxSteps {
		w.Res.Cut = true
		w.cut = true
		panic(CutSignal{})
	}
	op := w.curOp[proc]
	for i := range w.Plan.Faults {
		f := &w.Plan.Faults[i]
		if f.OpID != 0 && f.OpID != op {
			continue
		}
		if f.Proc != 0 && f.Proc != proc+1 {
			continue
		}
		if f.Site != "" && !strings.HasPrefix(site, f.Site) {
			continue
		}
		key := fmt.Sprintf("%d", i)
		w.counts[key]++
		if w.counts[key] == f.Nth {
			w.Res.Fired[f.Kind]++
			w.Event(proc, "FAULT", f.Kind+" at "+site)
			return Decision{f.Kind, f.Arg}
		}
	}
	return Decision{}
}

// SeamCount returns how many seam calls matched fault i so far (used by
// dry runs to size an enumeration).
func (w *World) SeamCount(i int) int { return w.counts[fmt.Sprintf("%d", i)] }

// Crash kills the calling process.
func (w *World) Crash(proc int, site string) {
	w.Event(proc, "CRASH", site)
	panic(CrashSignal{proc, site})
}

// Protect runs f and reports whether it was killed by a simulated crash.
// Other panics are returned as a value (the property decides what they mean).
func Protect(f func()) (crashed bool, cut bool, panicked any) {
	defer func() {
		if r := recover(); r != nil {
			switch r.(type) {
			case CrashSignal:
				crashed = true
			case CutSignal:
				cut = true
			default:
				panicked = r
			}
		}
	}()
	f()
	return
}

// ---------------------------------------------------------------------
// Cooperative task scheduler: exactly one process goroutine runs at a time.

// Proc is one simulated process.
type Proc struct {
	ID      int
	wake    chan struct{}
	done    bool
	blocked bool
	tried   bool
}

// RunProcs runs the bodies as simulated processes under the tape-driven
// scheduler until all are done, the run is cut, or a deadlock is found.
func (w *World) RunProcs(bodies []func(proc int)) {
	if len(bodies) == 1 {
		_, _, p := Protect(func() { bodies[0](0) })
		if p != nil {
			panic(p)
		}
		return
	}
	w.multi = true
	w.back = make(chan struct{})
	w.procs = make([]*Proc, len(bodies))
	var foreign any
	for i := range bodies {
		p := &Proc{ID: i, wake: make(chan struct{})}
		w.procs[i] = p
		body := bodies[i]
		go func() {
			<-p.wake
			_, _, pv := Protect(func() {
				if w.cut {
					panic(CutSignal{})
				}
				body(p.ID)
			})
			if pv != nil && foreign == nil {
				foreign = pv
			}
			p.done = true
			for _, q := range w.procs {
				q.tried = false
			}
			w.back <- struct{}{}
		}()
	}
	for {
		var en []*Proc
		allBlockedTried := true
		for _, p := range w.procs {
			if !p.done {
				en = append(en, p)
				if !(p.blocked && p.tried) {
					allBlockedTried = false
				}
			}
		}
		if len(en) == 0 {
			break
		}
		if allBlockedTried && !w.cut {
			w.Deadlock = true
			w.Event(-1, "DEADLOCK", fmt.Sprintf("%d processes blocked", len(en)))
			w.cut = true
		}
		var p *Proc
		if w.cut {
			p = en[0]
		} else {
			p = en[w.Choose(len(en))]
		}
		w.Cur = p.ID
		p.wake <- struct{}{}
		<-w.back
	}
	w.multi = false
	if foreign != nil {
		panic(foreign)
	}
}

// Yield parks the calling process and lets the scheduler pick who runs next.
func (w *World) Yield(proc int, site string) {
	if !w.multi {
		return
	}
	p := w.procs[proc]
	p.blocked = false
	for _, q := range w.procs { // progress: everybody gets another try
		q.tried = false
	}
	w.back <- struct{}{}
	<-p.wake
	if w.cut {
		panic(CutSignal{})
	}
}

// Block parks the calling process because it could not take a lock; it will
// retry when scheduled again. Used by the TryLock-and-park instrumentation.
func (w *World) Block(proc int, site string) {
	if !w.multi {
		// a single process blocking on a lock can never make progress
		w.Deadlock = true
		w.Event(proc, "DEADLOCK", site)
		w.cut = true
		panic(CutSignal{})
	}
	p := w.procs[proc]
	p.blocked = true
	p.tried = true
	w.Res.Probes["lock-wait"]++
	w.back <- struct{}{}
	<-p.wake
	if w.cut {
		panic(CutSignal{})
	}
}

// Progress tells the scheduler that something a blocked process may be
// waiting for has changed (a lock was released).
func (w *World) Progress() {
	for _, q := range w.procs {
		q.tried = false
	}
}
