// Package cell is the pure-Go stand-in for gothemis/cell, Seal mode only
// (see /verif/DESIGN.md §1).
//
// Sealed layout (44 bytes of overhead, as Themis):
//
//	u32le alg | u32le ivLen(12) | u32le tagLen(16) | u32le msgLen | iv[12] | tag[16] | ciphertext[msgLen]
//
// AES-256-GCM under HMAC-SHA256(key, "seal"), additional data = header
// fields ‖ context. Any change of key, context or bytes fails to open.
package cell

import (
	"crypto/aes"
	"crypto/cipher"
	"crypto/hmac"
	"crypto/rand"
	"crypto/sha256"
	"encoding/binary"

	"github.com/cossacklabs/themis/gothemis/errors"
	"github.com/cossacklabs/themis/gothemis/keys"
)

// Errors returned by Secure Cell.
var (
	ErrGetOutputSize     = errors.New("failed to get output size")
	ErrEncryptData       = errors.New("failed to protect data")
	ErrDecryptData       = errors.New("failed to unprotect data")
	ErrInvalidMode       = errors.NewWithCode(errors.InvalidParameter, "invalid Secure Cell mode specified")
	ErrMissingKey        = errors.NewWithCode(errors.InvalidParameter, "empty symmetric key for Secure Cell")
	ErrMissingPassphrase = errors.NewWithCode(errors.InvalidParameter, "empty passphrase for Secure Cell")
	ErrMissingMessage    = errors.NewWithCode(errors.InvalidParameter, "empty message for Secure Cell")
	ErrMissingToken      = errors.NewWithCode(errors.InvalidParameter, "authentication token is required in Token Protect mode")
	ErrMissingContext    = errors.NewWithCode(errors.InvalidParameter, "associated context is required in Context Imprint mode")
	ErrOutOfMemory       = errors.NewWithCode(errors.NoMemory, "Secure Cell cannot allocate enough memory")
	ErrOverflow          = ErrOutOfMemory
)

// Secure Cell operation mode.
const (
	ModeSeal = iota
	ModeTokenProtect
	ModeContextImprint
)

// Deprecated aliases.
const (
	CELL_MODE_SEAL            = ModeSeal
	CELL_MODE_TOKEN_PROTECT   = ModeTokenProtect
	CELL_MODE_CONTEXT_IMPRINT = ModeContextImprint
)

// Overhead of a sealed message.
const Overhead = 44

const algID = 0x40010100

func aead(key []byte) cipher.AEAD {
	m := hmac.New(sha256.New, key)
	m.Write([]byte("seal"))
	block, err := aes.NewCipher(m.Sum(nil))
	if err != nil {
		panic(err)
	}
	g, err := cipher.NewGCM(block)
	if err != nil {
		panic(err)
	}
	return g
}

func seal(key, message, context []byte) ([]byte, error) {
	out := make([]byte, Overhead, Overhead+len(message))
	binary.LittleEndian.PutUint32(out[0:], algID)
	binary.LittleEndian.PutUint32(out[4:], 12)
	binary.LittleEndian.PutUint32(out[8:], 16)
	binary.LittleEndian.PutUint32(out[12:], uint32(len(message)))
	if _, err := rand.Read(out[16:28]); err != nil {
		return nil, ErrEncryptData
	}
	ad := make([]byte, 0, 16+len(context))
	ad = append(ad, out[:16]...)
	ad = append(ad, context...)
	ct := aead(key).Seal(nil, out[16:28], message, ad)
	// ct = ciphertext ‖ tag
	copy(out[28:44], ct[len(message):])
	out = append(out, ct[:len(message)]...)
	return out, nil
}

func wellFormed(sealed []byte) bool {
	if len(sealed) < Overhead {
		return false
	}
	return binary.LittleEndian.Uint32(sealed[0:]) == algID &&
		binary.LittleEndian.Uint32(sealed[4:]) == 12 &&
		binary.LittleEndian.Uint32(sealed[8:]) == 16
}

func open(key, sealed, context []byte) ([]byte, error) {
	fail := errors.NewWithCode(errors.Fail, "Secure Cell failed to decrypt")
	if len(sealed) < Overhead {
		return nil, errors.NewWithCode(errors.InvalidParameter, "Secure Cell failed to decrypt")
	}
	if binary.LittleEndian.Uint32(sealed[0:]) != algID ||
		binary.LittleEndian.Uint32(sealed[4:]) != 12 ||
		binary.LittleEndian.Uint32(sealed[8:]) != 16 {
		return nil, fail
	}
	n := binary.LittleEndian.Uint32(sealed[12:])
	if uint64(n) != uint64(len(sealed)-Overhead) || n == 0 {
		return nil, fail
	}
	ad := make([]byte, 0, 16+len(context))
	ad = append(ad, sealed[:16]...)
	ad = append(ad, context...)
	ct := make([]byte, 0, int(n)+16)
	ct = append(ct, sealed[44:]...)
	ct = append(ct, sealed[28:44]...)
	pt, err := aead(key).Open(nil, sealed[16:28], ct, ad)
	if err != nil {
		return nil, fail
	}
	return pt, nil
}

// SecureCell is the deprecated mode-parametrised API; only ModeSeal works here.
type SecureCell struct {
	key  []byte
	mode int
}

// New makes a new Secure Cell with master key and specified mode.
func New(key []byte, mode int) *SecureCell { return &SecureCell{key, mode} }

// Protect encrypts data with optional user context.
func (sc *SecureCell) Protect(data []byte, context []byte) ([]byte, []byte, error) {
	if sc.mode < ModeSeal || sc.mode > ModeContextImprint {
		return nil, nil, ErrInvalidMode
	}
	if len(sc.key) == 0 {
		return nil, nil, ErrMissingKey
	}
	if len(data) == 0 {
		return nil, nil, ErrMissingMessage
	}
	if sc.mode != ModeSeal {
		return nil, nil, errors.NewWithCode(errors.NotSupported, "stand-in: only Seal mode")
	}
	out, err := seal(sc.key, data, context)
	return out, nil, err
}

// Unprotect decrypts data.
func (sc *SecureCell) Unprotect(protectedData []byte, additionalData []byte, context []byte) ([]byte, error) {
	if sc.mode < ModeSeal || sc.mode > ModeContextImprint {
		return nil, ErrInvalidMode
	}
	if len(sc.key) == 0 {
		return nil, ErrMissingKey
	}
	if len(protectedData) == 0 {
		return nil, ErrMissingMessage
	}
	if sc.mode != ModeSeal {
		return nil, errors.NewWithCode(errors.NotSupported, "stand-in: only Seal mode")
	}
	if !wellFormed(protectedData) {
		// Themis fails while computing the output size for malformed input
		return nil, ErrGetOutputSize
	}
	pt, err := open(sc.key, protectedData, context)
	if err != nil {
		return nil, ErrDecryptData
	}
	return pt, nil
}

// SecureCellSeal is Secure Cell in Seal mode.
type SecureCellSeal struct{ key *keys.SymmetricKey }

// SealWithKey makes a new Secure Cell in Seal mode secured by a symmetric key.
func SealWithKey(key *keys.SymmetricKey) (*SecureCellSeal, error) {
	if key == nil || len(key.Value) == 0 {
		return nil, ErrMissingKey
	}
	return &SecureCellSeal{key}, nil
}

// Encrypt message.
func (sc *SecureCellSeal) Encrypt(message, context []byte) ([]byte, error) {
	if len(message) == 0 {
		return nil, ErrMissingMessage
	}
	return seal(sc.key.Value, message, context)
}

// Decrypt message.
func (sc *SecureCellSeal) Decrypt(encrypted, context []byte) ([]byte, error) {
	if len(encrypted) == 0 {
		return nil, ErrMissingMessage
	}
	return open(sc.key.Value, encrypted, context)
}
