// Package keys is the pure-Go stand-in for gothemis/keys (see /verif/DESIGN.md §1).
//
// EC key pairs are P-256 keys in Themis-shaped containers:
//
//	private: "REC2" | u32be total(45) | u32be crc | 0x00 | 32-byte scalar
//	public:  "UEC2" | u32be total(45) | u32be crc | 33-byte compressed point
//
// All randomness comes from crypto/rand.Read so that the simulator's
// deterministic randomness source decides every key.
package keys

import (
	"crypto/ecdh"
	"crypto/elliptic"
	"crypto/rand"
	"encoding/binary"
	"hash/crc32"

	"github.com/cossacklabs/themis/gothemis/errors"
)

// Type of Themis key.
const (
	TypeEC = iota
	TypeRSA
)

// Deprecated aliases.
const (
	KEYTYPE_EC  = TypeEC
	KEYTYPE_RSA = TypeRSA
)

// Errors returned by key generation.
var (
	ErrGetKeySize      = errors.New("failed to get needed key sizes")
	ErrGenerateKeypair = errors.New("failed to generate keypair")
	ErrInvalidType     = errors.NewWithCode(errors.InvalidParameter, "invalid key type specified")
	ErrOutOfMemory     = errors.NewWithCode(errors.NoMemory, "key generator cannot allocate enough memory")
	ErrOverflow        = ErrOutOfMemory

	ErrGetSymmetricKeySize  = errors.New("failed to get symmetric key size")
	ErrGenerateSymmetricKey = errors.New("failed to generate symmetric key")
)

// PrivateKey stores a private key.
type PrivateKey struct{ Value []byte }

// PublicKey stores a public key.
type PublicKey struct{ Value []byte }

// Keypair stores a key pair.
type Keypair struct {
	Private *PrivateKey
	Public  *PublicKey
}

// SymmetricKey stores a master key for Secure Cell.
type SymmetricKey struct{ Value []byte }

// ContainerLen is the length of both key containers.
const ContainerLen = 45

const (
	privTag = "REC2"
	pubTag  = "UEC2"
)

func container(tag string, body []byte) []byte {
	out := make([]byte, 12+len(body))
	copy(out, tag)
	binary.BigEndian.PutUint32(out[4:8], uint32(len(out)))
	copy(out[12:], body)
	binary.BigEndian.PutUint32(out[8:12], crcOf(out))
	return out
}

func crcOf(c []byte) uint32 {
	h := crc32.NewIEEE()
	h.Write(c[:8])
	h.Write([]byte{0, 0, 0, 0})
	h.Write(c[12:])
	return h.Sum32()
}

func openContainer(tag string, c []byte) ([]byte, bool) {
	if len(c) != ContainerLen || string(c[:4]) != tag {
		return nil, false
	}
	if binary.BigEndian.Uint32(c[4:8]) != uint32(len(c)) {
		return nil, false
	}
	if binary.BigEndian.Uint32(c[8:12]) != crcOf(c) {
		return nil, false
	}
	return c[12:], true
}

// New generates a new random pair of keys of the specified type.
func New(keytype int) (*Keypair, error) {
	if keytype != TypeEC {
		if keytype == TypeRSA {
			return nil, errors.NewWithCode(errors.NotSupported, "stand-in: RSA keys not supported")
		}
		return nil, ErrInvalidType
	}
	seed := make([]byte, 32)
	for {
		if _, err := rand.Read(seed); err != nil {
			return nil, ErrGenerateKeypair
		}
		priv, err := ecdh.P256().NewPrivateKey(seed)
		if err != nil {
			continue
		}
		pub := priv.PublicKey().Bytes() // uncompressed
		x, y := elliptic.Unmarshal(elliptic.P256(), pub)
		comp := elliptic.MarshalCompressed(elliptic.P256(), x, y)
		body := make([]byte, 33)
		copy(body[1:], priv.Bytes())
		return &Keypair{
			Private: &PrivateKey{Value: container(privTag, body)},
			Public:  &PublicKey{Value: container(pubTag, comp)},
		}, nil
	}
}

// ParsePrivate decodes a private key container (stand-in internal use).
func ParsePrivate(k *PrivateKey) (*ecdh.PrivateKey, bool) {
	if k == nil {
		return nil, false
	}
	body, ok := openContainer(privTag, k.Value)
	if !ok || body[0] != 0 {
		return nil, false
	}
	p, err := ecdh.P256().NewPrivateKey(body[1:])
	return p, err == nil
}

// ParsePublic decodes a public key container (stand-in internal use).
func ParsePublic(k *PublicKey) (*ecdh.PublicKey, bool) {
	if k == nil {
		return nil, false
	}
	body, ok := openContainer(pubTag, k.Value)
	if !ok {
		return nil, false
	}
	x, y := elliptic.UnmarshalCompressed(elliptic.P256(), body)
	if x == nil {
		return nil, false
	}
	p, err := ecdh.P256().NewPublicKey(elliptic.Marshal(elliptic.P256(), x, y))
	return p, err == nil
}

// NewSymmetricKey generates a new random symmetric key.
func NewSymmetricKey() (*SymmetricKey, error) {
	key := make([]byte, 32)
	if _, err := rand.Read(key); err != nil {
		return nil, ErrGenerateSymmetricKey
	}
	return &SymmetricKey{Value: key}, nil
}
