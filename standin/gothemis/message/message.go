// Package message is the pure-Go stand-in for gothemis/message, encrypt mode
// only (see /verif/DESIGN.md §1).
//
// Wrapped layout: u32le tag(0x26040027) | u32le total length | sealed (44 + n)
// where the seal key is SHA-256("smessage" ‖ ECDH(private, peerPublic)).
// A 32-byte payload wraps to 84 bytes, as with Themis.
package message

import (
	"crypto/sha256"
	"encoding/binary"

	"github.com/cossacklabs/themis/gothemis/cell"
	"github.com/cossacklabs/themis/gothemis/errors"
	"github.com/cossacklabs/themis/gothemis/keys"
)

// Errors returned by Secure Message.
var (
	ErrEncryptMessage    = errors.New("failed to encrypt message")
	ErrDecryptMessage    = errors.New("failed to decrypt message")
	ErrSignMessage       = errors.New("failed to sign message")
	ErrVerifyMessage     = errors.New("failed to verify message")
	ErrProcessMessage    = errors.New("failed to process message")
	ErrGetOutputSize     = errors.New("failed to get output size")
	ErrMissingMessage    = errors.NewWithCode(errors.InvalidParameter, "empty message for Secure Cell")
	ErrMissingPublicKey  = errors.NewWithCode(errors.InvalidParameter, "empty peer public key for Secure Message")
	ErrMissingPrivateKey = errors.NewWithCode(errors.InvalidParameter, "empty private key for Secure Message")
	ErrOutOfMemory       = errors.NewWithCode(errors.NoMemory, "Secure Message cannot allocate enough memory")
	ErrOverflow          = ErrOutOfMemory
)

const wrapTag = 0x26040027

// SecureMessage provides a sequence-independent, stateless, contextless messaging system.
type SecureMessage struct {
	private    *keys.PrivateKey
	peerPublic *keys.PublicKey
}

// New makes a new Secure Message context.
func New(private *keys.PrivateKey, peerPublic *keys.PublicKey) *SecureMessage {
	return &SecureMessage{private, peerPublic}
}

func (sm *SecureMessage) shared() (*keys.SymmetricKey, error) {
	priv, ok := keys.ParsePrivate(sm.private)
	if !ok {
		return nil, ErrGetOutputSize
	}
	pub, ok := keys.ParsePublic(sm.peerPublic)
	if !ok {
		return nil, ErrGetOutputSize
	}
	secret, err := priv.ECDH(pub)
	if err != nil {
		return nil, ErrProcessMessage
	}
	h := sha256.New()
	h.Write([]byte("smessage"))
	h.Write(secret)
	return &keys.SymmetricKey{Value: h.Sum(nil)}, nil
}

// Wrap encrypts the provided message.
func (sm *SecureMessage) Wrap(message []byte) ([]byte, error) {
	if sm.private == nil || len(sm.private.Value) == 0 {
		return nil, ErrMissingPrivateKey
	}
	if sm.peerPublic == nil || len(sm.peerPublic.Value) == 0 {
		return nil, ErrMissingPublicKey
	}
	if len(message) == 0 {
		return nil, ErrMissingMessage
	}
	key, err := sm.shared()
	if err != nil {
		return nil, err
	}
	sc, _ := cell.SealWithKey(key)
	sealed, err := sc.Encrypt(message, nil)
	if err != nil {
		return nil, ErrEncryptMessage
	}
	out := make([]byte, 8, 8+len(sealed))
	binary.LittleEndian.PutUint32(out[0:], wrapTag)
	binary.LittleEndian.PutUint32(out[4:], uint32(8+len(sealed)))
	return append(out, sealed...), nil
}

// Unwrap decrypts the encrypted message.
func (sm *SecureMessage) Unwrap(message []byte) ([]byte, error) {
	if sm.private == nil || len(sm.private.Value) == 0 {
		return nil, ErrMissingPrivateKey
	}
	if sm.peerPublic == nil || len(sm.peerPublic.Value) == 0 {
		return nil, ErrMissingPublicKey
	}
	if len(message) == 0 {
		return nil, ErrMissingMessage
	}
	if len(message) < 8 || binary.LittleEndian.Uint32(message[0:]) != wrapTag ||
		uint64(binary.LittleEndian.Uint32(message[4:])) != uint64(len(message)) {
		return nil, ErrDecryptMessage
	}
	key, err := sm.shared()
	if err != nil {
		return nil, err
	}
	sc, _ := cell.SealWithKey(key)
	pt, err := sc.Decrypt(message[8:], nil)
	if err != nil {
		return nil, ErrDecryptMessage
	}
	return pt, nil
}

// Sign is not provided by the stand-in (Acra does not use it).
func (sm *SecureMessage) Sign(message []byte) ([]byte, error) {
	return nil, errors.NewWithCode(errors.NotSupported, "stand-in: Sign not supported")
}

// Verify is not provided by the stand-in (Acra does not use it).
func (sm *SecureMessage) Verify(message []byte) ([]byte, error) {
	return nil, errors.NewWithCode(errors.NotSupported, "stand-in: Verify not supported")
}
